package database

// Replay of the failed obligation
//   (*database.ORM).Create#pre@call "(database.Database).QueryRow: ctxtx(ctx) == nil"  (likewise Query/Update/Delete/Count)
// against the real code: work done through the ORM inside ORM.Transaction must be rolled back when the
// callback fails. A PostgresDB value is backed by an in-memory SQLite *sql.DB (pure Go driver in go.mod),
// which accepts the ORM's "$n ... RETURNING *" statements.

import (
	"context"
	"database/sql"
	"errors"
	"testing"

	_ "modernc.org/sqlite"
)

func TestGovcReplayC14ORMTransactionRollsBackORMWrites(t *testing.T) {
	raw, err := sql.Open("sqlite", "file:govc_c14?mode=memory&cache=shared")
	if err != nil {
		t.Skip(err)
	}
	defer raw.Close()
	raw.SetMaxOpenConns(4)
	if _, err := raw.Exec("CREATE TABLE items (name TEXT)"); err != nil {
		t.Skip(err)
	}
	pg := &PostgresDB{config: &Config{Driver: "postgres"}, db: raw}
	orm := NewORM(pg, "items")
	ctx := context.Background()
	err = orm.Transaction(ctx, func(txCtx context.Context) error {
		if _, err := orm.Create(txCtx, map[string]interface{}{"name": "inside-tx"}); err != nil {
			t.Skipf("insert not accepted by the stand-in engine: %v", err)
		}
		return errors.New("callback fails")
	})
	if err == nil {
		t.Fatal("transaction should report the callback error")
	}
	var n int
	if err := raw.QueryRow("SELECT COUNT(*) FROM items").Scan(&n); err != nil {
		t.Fatal(err)
	}
	if n != 0 {
		t.Fatalf("REPRODUCED: %d row(s) written through the ORM inside a rolled-back ORM.Transaction are still there", n)
	}
}
