package websocket

// Replay of the failed obligation
//   (*websocket.Connection).JoinRoom#post:"(has(c.rooms, roomName) && c.rooms[roomName]) ==> member(c, roomName)"
// against the real code: joining a full room records the room in the connection's own view although
// the room refused the connection.

import "testing"

func TestGovcReplayC16JoinFullRoom(t *testing.T) {
	cfg := DefaultConfig()
	cfg.MaxConnectionsPerRoom = 1
	hub := NewHubWithConfig(cfg)
	a := &Connection{ID: "a", hub: hub, rooms: map[string]bool{}, send: make(chan []byte, 1)}
	b := &Connection{ID: "b", hub: hub, rooms: map[string]bool{}, send: make(chan []byte, 1)}
	a.JoinRoom("r")
	b.JoinRoom("r")
	room, _ := hub.GetRoomManager().GetRoom("r")
	if b.IsInRoom("r") != room.Has(b) {
		t.Fatalf("REPRODUCED: views disagree: connection says in room = %v, room says member = %v", b.IsInRoom("r"), room.Has(b))
	}
}
