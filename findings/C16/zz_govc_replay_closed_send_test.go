package websocket

// Replay: the hub closes a connection's send channel (unregister) while other goroutines may still be
// sending on it - a room broadcast from an HTTP route (`ws.broadcast`), or Connection.Send from the
// goroutine that runs a handler. A send on a closed channel panics; in a goroutine of the runtime's own
// (read pump, hub loop) nothing recovers it and the process dies.
//
// The test runs a sender against the real hub loop and recovers the panic in the sender goroutine to
// report it (the real callers have no recover).

import (
	"sync/atomic"
	"testing"
	"time"
)

func TestGovcReplayC16SendOnClosedChannel(t *testing.T) {
	var panicked atomic.Value
	for round := 0; round < 200 && panicked.Load() == nil; round++ {
		hub := NewHub()
		go hub.Run()
		conn := NewConnection("c", nil, hub)
		hub.register <- conn
		room := hub.GetRoomManager().GetOrCreateRoom("r")
		deadline := time.Now().Add(time.Second)
		for hub.GetConnectionCount() == 0 && time.Now().Before(deadline) {
			time.Sleep(time.Millisecond)
		}
		_ = room.Add(conn)
		done := make(chan struct{})
		go func() {
			defer close(done)
			defer func() {
				if r := recover(); r != nil {
					panicked.Store(r)
				}
			}()
			for i := 0; i < 20000; i++ {
				room.Broadcast([]byte("x"), nil)
				select {
				case <-conn.send: // keep the queue from filling up
				default:
				}
			}
		}()
		time.Sleep(time.Duration(round%5) * 100 * time.Microsecond)
		hub.unregister <- conn
		<-done
		hub.Shutdown()
	}
	if r := panicked.Load(); r != nil {
		t.Errorf("REPRODUCED: a room broadcast racing with a disconnect panicked: %v", r)
	}
}
