package websocket

// Replay of the failed obligation (failed with a model)
//   (*websocket.Room).Add#assert "conn != nil && conn.closed != nil ==> !closed(conn.closed) @ r.connections[conn] = true"
// against the real code: a message handler or an HTTP route that still holds a connection the hub has already dropped
// calls JoinRoom; the room accepted it, and since the hub removes a connection from its rooms only once - at the
// disconnect - it stayed a member for good ("a disconnected connection is in no room and receives nothing").

import (
	"testing"
	"time"
)

func TestGovcReplayC16JoinAfterDisconnect(t *testing.T) {
	hub := NewHub()
	go hub.Run()
	defer hub.Shutdown()
	conn := NewConnection("c", nil, hub)
	hub.register <- conn
	deadline := time.Now().Add(2 * time.Second)
	for hub.GetConnectionCount() == 0 && time.Now().Before(deadline) {
		time.Sleep(time.Millisecond)
	}
	hub.unregister <- conn
	for hub.GetConnectionCount() != 0 && time.Now().Before(deadline) {
		time.Sleep(time.Millisecond)
	}
	time.Sleep(20 * time.Millisecond) // the hub loop finishes the disconnect (rooms, metrics, handlers)
	conn.JoinRoom("lobby")
	if n := hub.GetRoomManager().GetRoomSize("lobby"); n != 0 {
		t.Errorf("REPRODUCED: the dropped connection is a member of room lobby (size %d)", n)
	}
	if conn.IsInRoom("lobby") {
		t.Errorf("REPRODUCED: the dropped connection lists lobby among its rooms")
	}
}
