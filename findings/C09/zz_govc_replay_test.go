package interpreter

// Replay of the recorded finding
//   (*interpreter.Interpreter).evaluateAsyncExpr#assert "fresh(future) && fresh(asyncEnv) && (asyncEnv.parent == nil || fresh(asyncEnv.parent)) @ go func() {"
// against the real code (run with -race): the goroutine of an async block evaluates in a child of the parent's live
// Environment - a plain map, "not safe for concurrent use" - while the parent goes on declaring variables:
//   $ f = async { > x + 1 }
//   $ v0 = 0 ... $ v49 = 49
//   > await f
// The race detector reports the concurrent map read/write; without it the Go runtime may abort the whole process with
// "fatal error: concurrent map read and map write", which no recover() can intercept.

import (
	"fmt"
	"testing"

	. "github.com/glyphlang/glyph/pkg/ast"
)

func TestGovcReplayC09AsyncSharesParentEnvironment(t *testing.T) {
	i := NewInterpreter()
	env := NewEnvironment()
	env.Define("x", int64(1))
	block := AsyncExpr{Body: []Statement{ReturnStatement{Value: BinaryOpExpr{Op: Add, Left: VariableExpr{Name: "x"}, Right: LiteralExpr{Value: IntLiteral{Value: 1}}}}}}
	for n := 0; n < 100; n++ {
		f, err := i.evaluateAsyncExpr(block, env)
		if err != nil {
			t.Fatal(err)
		}
		for k := 0; k < 50; k++ {
			env.Define(fmt.Sprintf("v%d", k), int64(k))
		}
		if v, err := f.(*Future).Await(); err != nil || v != int64(2) {
			t.Fatalf("await: %v %v", v, err)
		}
	}
}
