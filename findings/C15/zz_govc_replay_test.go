package jit

// Replays of the failed obligations of C15 against the real code.
//  (a) (*jit.JITCompiler).InvalidateCache#post "noValidSpec(...)" / ClearCache#post: after an invalidation a
//      type-specialised compilation of the OLD definition is still served for the new definition.
//  (b) (*jit.JITCompiler).CompileRoute#guarded-by "return unit.Bytecode, nil" (and shouldRecompile/recompileRoute/
//      RecordDeoptimization reads of unit.Tier): CompilationUnit fields are written under unitsMux by recompileRoute
//      but read without it; run with -race to see the report (TestGovcReplayC15UnitRace).

import (
	"bytes"
	"sync"
	"testing"
	"time"

	"github.com/glyphlang/glyph/pkg/ast"
)

func govcRoute(v int64) *ast.Route {
	return &ast.Route{Path: "/p", Method: ast.Get, Body: []ast.Statement{
		ast.ReturnStatement{Value: ast.LiteralExpr{Value: ast.IntLiteral{Value: v}}},
	}}
}

func TestGovcReplayC15StaleSpecializationAfterInvalidate(t *testing.T) {
	j := NewJITCompiler()
	types := map[string]string{"x": "int"}
	b1, err := j.CompileRouteWithTypes("p", govcRoute(1), types)
	if err != nil {
		t.Skip(err)
	}
	j.InvalidateCache("p")
	j.ClearCache()
	b2, err := j.CompileRouteWithTypes("p", govcRoute(2), types)
	if err != nil {
		t.Fatal(err)
	}
	fresh, _ := NewJITCompiler().CompileRouteWithTypes("p", govcRoute(2), types)
	if bytes.Equal(b1, b2) && !bytes.Equal(b2, fresh) {
		t.Fatalf("REPRODUCED: after InvalidateCache+ClearCache the bytecode of the old definition is served for the new one")
	}
}

func TestGovcReplayC15UnitRace(t *testing.T) {
	j := NewJITCompilerWithConfig(2, 0)
	r := govcRoute(1)
	if _, err := j.CompileRoute("p", r); err != nil {
		t.Skip(err)
	}
	var wg sync.WaitGroup
	for g := 0; g < 4; g++ {
		wg.Add(1)
		go func() {
			defer wg.Done()
			for i := 0; i < 200; i++ {
				j.RecordExecution("p", time.Microsecond)
				_, _ = j.CompileRoute("p", r)
			}
		}()
	}
	wg.Wait()
}
