package server

// Replay of the failed obligation  server.recordAuthFailure#nil:"tracker.failures++"
// against the real code. The request closure releases the mutex between creating the client's
// tracker and calling recordAuthFailure; the background cleanup (or evictStaleTrackers in
// another request) may delete a fresh tracker (zero lastFailure/lockedUntil) in that window.
// recordAuthFailure then dereferences a nil tracker. The state "tracker missing" is set up directly.

import (
	"sync"
	"testing"
)

func TestGovcReplayC06RecordAuthFailureMissingTracker(t *testing.T) {
	defer func() {
		if r := recover(); r != nil {
			t.Fatalf("REPRODUCED: recordAuthFailure panicked on a removed tracker: %v", r)
		}
	}()
	var mu sync.Mutex
	recordAuthFailure("203.0.113.5", map[string]*authFailureTracker{}, &mu, DefaultAuthRateLimitConfig())
}
