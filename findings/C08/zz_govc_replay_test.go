package database

// Replays of failed obligations of the mock store (run with -race):
//   (*database.MockTableHandler).Filter#ifacecmp "if record[column] == value {"   (likewise Count, CountWhere, sameID)
//   (*database.MockTableHandler).Create#nilmap   "data[\"id\"] = int64(len(m.db.data[m.name]) + 1)"
//   (*database.MockTableHandler).Get#post        "result == nil || fresh(result.(map[string]interface{}))"  (likewise All, Filter, Update, Create)

import (
	"sync"
	"testing"
)

func govcNoPanic(t *testing.T, what string, f func()) {
	defer func() {
		if r := recover(); r != nil {
			t.Errorf("REPRODUCED: %s panicked: %v", what, r)
		}
	}()
	f()
}

// db.items.filter("tags", [1]) on a table whose rows hold an array in that column
func TestGovcReplayC08UncomparableOperand(t *testing.T) {
	tbl := NewMockDatabase().Table("items")
	tbl.Create(map[string]interface{}{"tags": []interface{}{int64(1)}})
	arg := []interface{}{int64(1)}
	govcNoPanic(t, `Filter("tags", [1])`, func() { tbl.Filter("tags", arg) })
	govcNoPanic(t, `Count("tags", [1])`, func() { tbl.Count("tags", arg) })
	govcNoPanic(t, `CountWhere("tags", [1], "tags", [1])`, func() { tbl.CountWhere("tags", arg, "tags", arg) })
	tbl.Create(map[string]interface{}{"id": []interface{}{int64(7)}})
	govcNoPanic(t, `Get([7])`, func() { tbl.Get([]interface{}{int64(7)}) })
}

// db.items.create(null)
func TestGovcReplayC08CreateNull(t *testing.T) {
	tbl := NewMockDatabase().Table("items")
	govcNoPanic(t, "Create(nil)", func() { tbl.Create(nil) })
}

// one request renders the row it got from Get while another request updates that row
func TestGovcReplayC08LiveRow(t *testing.T) {
	tbl := NewMockDatabase().Table("items")
	tbl.Create(map[string]interface{}{"id": int64(1), "n": int64(0)})
	var wg sync.WaitGroup
	wg.Add(2)
	go func() {
		defer wg.Done()
		for k := 0; k < 2000; k++ {
			row, _ := tbl.Get(int64(1)).(map[string]interface{})
			for range row { // the response encoder walks the row
			}
		}
	}()
	go func() {
		defer wg.Done()
		for k := 0; k < 2000; k++ {
			tbl.Update(int64(1), map[string]interface{}{"n": int64(k)})
		}
	}()
	wg.Wait()
}
