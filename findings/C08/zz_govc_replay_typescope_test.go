package interpreter

// Replay of the recorded findings (run with -race)
//   structural:shared-writes|interpreter|Interpreter,TypeChecker#(*interpreter.TypeChecker).PushTypeScope: TypeChecker.typeScope
//   structural:shared-writes|interpreter|Interpreter,TypeChecker#(*interpreter.TypeChecker).PopTypeScope: TypeChecker.typeScope
// Two requests served by the one interpreter of a server both call a generic function `! id<T>(x: T): T { > x }`:
// every call writes its bindings into the type checker shared by all requests and deletes them afterwards.

import (
	"sync"
	"testing"

	. "github.com/glyphlang/glyph/pkg/ast"
)

func TestGovcReplayC08SharedTypeScope(t *testing.T) {
	i := NewInterpreter()
	fn := Function{
		Name:       "id",
		TypeParams: []TypeParameter{{Name: "T"}},
		Params:     []Field{{Name: "x", TypeAnnotation: TypeParameterType{Name: "T"}, Required: true}},
		ReturnType: TypeParameterType{Name: "T"},
		Body:       []Statement{ReturnStatement{Value: VariableExpr{Name: "x"}}},
	}
	var wg sync.WaitGroup
	for g := 0; g < 2; g++ {
		wg.Add(1)
		go func(g int) {
			defer wg.Done()
			for k := 0; k < 500; k++ {
				env := NewChildEnvironment(i.globalEnv) // a request's own environment
				var arg Expr = LiteralExpr{Value: IntLiteral{Value: int64(k)}}
				typ := []Type{IntType{}}
				if g == 1 {
					arg, typ = LiteralExpr{Value: StringLiteral{Value: "s"}}, []Type{StringType{}}
				}
				if _, err := i.executeGenericFunction(fn, typ, []Expr{arg}, env); err != nil {
					t.Errorf("request %d: %v", g, err)
					return
				}
			}
		}(g)
	}
	wg.Wait()
}
