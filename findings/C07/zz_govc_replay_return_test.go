package main

// Replay of the recorded finding
//   glyph.createCompiledRouteHandler$1#assert "route.ReturnType != nil ==> retOK(result, route.ReturnType) @ return json.NewEncoder(ctx.ResponseWriter).Encode(result)"
// against the real handlers: the route declares `-> Profile` (with a required string field `name`) and returns an object whose
// `name` is a number. The interpreter answers 500 (return type mismatch); the compiled handler, the default engine,
// never looks at the declared return type and sends the violating data with 200.

import (
	"net/http"
	"net/http/httptest"
	"testing"

	"github.com/glyphlang/glyph/pkg/ast"
	"github.com/glyphlang/glyph/pkg/compiler"
	"github.com/glyphlang/glyph/pkg/interpreter"
	"github.com/glyphlang/glyph/pkg/server"
)

const govcC07ReturnSource = `: Profile {
  name: str!
}

@ GET /me -> Profile {
  > {name: 42}
}`

func TestGovcReplayC07DeclaredReturnTypeEnforced(t *testing.T) {
	module, err := parseSource(govcC07ReturnSource)
	if err != nil {
		t.Fatal(err)
	}
	var route *ast.Route
	for _, item := range module.Items {
		if r, ok := item.(*ast.Route); ok {
			route = r
		}
	}
	interp := interpreter.NewInterpreter()
	if err := interp.LoadModule(*module); err != nil {
		t.Fatal(err)
	}
	bc, err := compiler.NewCompiler().CompileRoute(route)
	if err != nil {
		t.Fatal(err)
	}
	setCompiledTypeDefs(module)
	for name, h := range map[string]server.RouteHandler{
		"interpreted": createRouteHandler(route, interp),
		"compiled":    createCompiledRouteHandler(route, bc, nil),
	} {
		req := httptest.NewRequest("GET", "/me", nil)
		rec := httptest.NewRecorder()
		ctx := &server.Context{Request: req, ResponseWriter: rec, PathParams: map[string]string{}, StatusCode: http.StatusOK}
		_ = h(ctx)
		if rec.Code < 500 {
			t.Errorf("REPRODUCED: %s engine: status %d, body %s - the client received data violating `-> Profile`", name, rec.Code, rec.Body.String())
		}
	}
}
