package main

// Replay of the failed obligations
//   (*interpreter.TypeChecker).ValidateObjectAgainstTypeDef#post  "result == nil ==> reqOK(obj, typeDef)"          (null for a required field)
//   (*interpreter.Interpreter).ExecuteRoute#pre@call              "(*interpreter.Environment).Define: ... input ..." (absent / non-object body)
//   glyph.createCompiledRouteHandler$1#pre@call                   "(*vm.VM).SetLocal: ... input ..."                 (same, compiled)
// against the real handlers of both engines: the route declares `< input: NewUser` with a required field `name`,
// so its body must not run - and the client must get a 4xx - for each of these requests.

import (
	"net/http"
	"net/http/httptest"
	"strings"
	"testing"

	"github.com/glyphlang/glyph/pkg/ast"
	"github.com/glyphlang/glyph/pkg/compiler"
	"github.com/glyphlang/glyph/pkg/interpreter"
	"github.com/glyphlang/glyph/pkg/server"
)

const govcC07Source = `: NewUser {
  name: str!
  age: int
}

@ POST /users {
  < input: NewUser
  > {ran: true}
}`

func govcC07Post(t *testing.T, h server.RouteHandler, body string) (int, string) {
	req := httptest.NewRequest("POST", "/users", strings.NewReader(body))
	req.Header.Set("Content-Type", "application/json")
	rec := httptest.NewRecorder()
	ctx := &server.Context{Request: req, ResponseWriter: rec, PathParams: map[string]string{}, StatusCode: http.StatusOK}
	_ = h(ctx)
	return rec.Code, strings.TrimSpace(rec.Body.String())
}

func TestGovcReplayC07DeclaredInputEnforced(t *testing.T) {
	module, err := parseSource(govcC07Source)
	if err != nil {
		t.Fatal(err)
	}
	var route *ast.Route
	for _, item := range module.Items {
		if r, ok := item.(*ast.Route); ok {
			route = r
		}
	}
	interp := interpreter.NewInterpreter()
	if err := interp.LoadModule(*module); err != nil {
		t.Fatal(err)
	}
	bc, err := compiler.NewCompiler().CompileRoute(route)
	if err != nil {
		t.Fatal(err)
	}
	setCompiledTypeDefs(module)
	engines := map[string]server.RouteHandler{
		"interpreted": createRouteHandler(route, interp),
		"compiled":    createCompiledRouteHandler(route, bc, nil),
	}
	for name, h := range engines {
		if code, body := govcC07Post(t, h, `{"name": "ann"}`); code != 200 {
			t.Errorf("%s: conforming body rejected: %d %s", name, code, body)
		}
		for what, payload := range map[string]string{
			"null for the required field": `{"name": null}`,
			"absent body":                 ``,
			"body that is not an object":  `[1, 2]`,
			"malformed JSON":              `{"name": `,
		} {
			if code, body := govcC07Post(t, h, payload); code < 400 || code >= 500 {
				t.Errorf("REPRODUCED: %s engine, %s: status %d, body %s - the route body ran on data violating `< input: NewUser`", name, what, code, body)
			}
		}
	}
}
