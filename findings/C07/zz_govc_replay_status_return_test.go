package main

// Replay of the failed obligations
//   (*interpreter.Interpreter).ExecuteRoute#assert "route.ReturnType != nil && sr.StatusCode >= 200 && sr.StatusCode < 300 ==> checkOK(sr.Body, route.ReturnType) @ StatusCode: sr.StatusCode,"
//   glyph.createCompiledRouteHandler$1#assert "route.ReturnType != nil && status >= 200 && status < 300 ==> retOK(body, route.ReturnType) @ return writeEncodedJSON(ctx, status, ..."
// against the real code: a value returned with an explicit status (`> value :: N`) skipped the declared return type in
// both engines - meant for guard error bodies, it also let `> {name: 42} :: 201` (or `:: 200`) through `-> Profile`:
// the client received data violating the declaration with a success status instead of a 5xx.

import (
	"net/http/httptest"
	"strings"
	"testing"

	"github.com/glyphlang/glyph/pkg/ast"
	"github.com/glyphlang/glyph/pkg/compiler"
	"github.com/glyphlang/glyph/pkg/server"
)

func TestGovcReplayC07ExplicitSuccessStatus(t *testing.T) {
	cases := []struct {
		ret  string
		want int
	}{
		{`> {name: 42} :: 201`, 500}, {`> {name: 42} :: 200`, 500}, {`> {name: 42}`, 500},
		{`> {name: "a"} :: 201`, 201}, {`> {error: "nope"} :: 404`, 404}, {`> {name: "a"}`, 200},
	}
	for _, c := range cases {
		src := ": Profile {\n  name: str!\n}\n@ GET /p -> Profile {\n  " + c.ret + "\n}\n"
		module, err := parseSource(src)
		if err != nil {
			t.Fatal(err)
		}
		var route *ast.Route
		for _, it := range module.Items {
			if r, ok := it.(*ast.Route); ok {
				route = r
			}
		}
		run := func(h server.RouteHandler) (int, string) {
			rec := httptest.NewRecorder()
			ctx := &server.Context{ResponseWriter: rec, Request: httptest.NewRequest("GET", "/p", nil), PathParams: map[string]string{}}
			_ = h(ctx)
			return rec.Code, strings.TrimSpace(rec.Body.String())
		}
		interp := newConfiguredInterpreter()
		if err := interp.LoadModule(*module); err != nil {
			t.Fatal(err)
		}
		if code, body := run(createRouteHandler(route, interp)); code != c.want {
			t.Errorf("interpreted %s: %d %s, want %d", c.ret, code, body, c.want)
		}
		bytecode, err := compiler.NewCompilerWithOptLevel(compiler.OptBasic).CompileRoute(route)
		if err != nil {
			t.Fatal(err)
		}
		setCompiledTypeDefs(module)
		if code, body := run(createCompiledRouteHandler(route, bytecode, nil)); code != c.want {
			t.Errorf("compiled %s: %d %s, want %d", c.ret, code, body, c.want)
		}
	}
}
