package main

// Replay of the failed obligations
//   (*interpreter.Interpreter).ExecuteRoute#pre@call "(*interpreter.Environment).Define: arg1 == "input" && route.InputType != nil && !typeis(route.InputType, NamedType) && arg2 != nil ==> checkOK(arg2, route.InputType)"
//   glyph.validateCompiledInput#post "result == nil && route.InputType != nil && !typeis(route.InputType, ast.NamedType) && body != nil ==> checkOK(boxas(map[string]interface{}, body), route.InputType)"
// against the real code: only a declared input type that is a bare named type was enforced. `< input: Item?` ran the
// route on {"n":"x"} for n: int!, `< input: Item | Other` on an object neither accepts, `< input: [int]` on an object.

import (
	"net/http/httptest"
	"strings"
	"testing"

	"github.com/glyphlang/glyph/pkg/ast"
	"github.com/glyphlang/glyph/pkg/compiler"
	"github.com/glyphlang/glyph/pkg/server"
)

func TestGovcReplayC07DeclaredInputTypes(t *testing.T) {
	cases := []struct {
		decl, body string
		want       int
	}{
		{"Item?", `{"n":"x"}`, 400}, {"Item?", `{"n":1}`, 200}, {"Item?", ``, 200},
		{"Item | Other", `{"n":"x"}`, 400}, {"Item | Other", `{"n":1}`, 200}, {"Item | Other", `{"s":"a"}`, 200},
		{"[int]", `{"a":1}`, 400}, {"int", `{"n":"x"}`, 400}, {"Item", `{"n":"x"}`, 400}, {"Item", `{"n":2}`, 200},
	}
	for _, c := range cases {
		src := ": Item {\n  n: int!\n}\n: Other {\n  s: str!\n}\n@ POST /i {\n  < input: " + c.decl + "\n  > {got: input}\n}\n"
		module, err := parseSource(src)
		if err != nil {
			t.Fatal(err)
		}
		var route *ast.Route
		for _, it := range module.Items {
			if r, ok := it.(*ast.Route); ok {
				route = r
			}
		}
		run := func(h server.RouteHandler) (int, string) {
			rec := httptest.NewRecorder()
			req := httptest.NewRequest("POST", "/i", strings.NewReader(c.body))
			req.Header.Set("Content-Type", "application/json")
			ctx := &server.Context{ResponseWriter: rec, Request: req, PathParams: map[string]string{}}
			_ = h(ctx)
			return rec.Code, strings.TrimSpace(rec.Body.String())
		}
		interp := newConfiguredInterpreter()
		if err := interp.LoadModule(*module); err != nil {
			t.Fatal(err)
		}
		if code, body := run(createRouteHandler(route, interp)); code != c.want {
			t.Errorf("interpreted < input: %s %s: %d %s, want %d", c.decl, c.body, code, body, c.want)
		}
		bytecode, err := compiler.NewCompilerWithOptLevel(compiler.OptBasic).CompileRoute(route)
		if err != nil {
			t.Fatal(err)
		}
		setCompiledTypeDefs(module)
		if code, body := run(createCompiledRouteHandler(route, bytecode, nil)); code != c.want {
			t.Errorf("compiled < input: %s %s: %d %s, want %d", c.decl, c.body, code, body, c.want)
		}
	}
}
