package main

// Replay of the failed obligations
//   (*interpreter.TypeChecker).CheckType#post "value != nil && typeis(expectedType, OptionalType) ==> (result == nil) == checkOK(value, expectedType.(OptionalType).InnerType)"
//   (*interpreter.TypeChecker).CheckType#post "... isListG(expectedType) ... ==> ... forall(j, ..., checkOK(value.([]interface{})[j], expectedType.(GenericType).TypeArgs[0]))"
//   (*interpreter.TypeChecker).CheckType#post "value != nil && typeis(expectedType, UnionType) ==> (result == nil) == exists(k, ..., checkOK(value, ...Types[k]))"
// against the real code. CheckType looked only at the outermost constructor: under `T?`, `A | B` and `List[T]`
// only the shallow TypesCompatible test ran. So a route with `< input: Item` ran its body on
//   {"tags":["a"]} for tags: [int]?        (wrongly typed element)
//   {"owner":{"age":3}} for owner: Owner?   (required field name missing)
//   {"list":["a"]} for list: List[int]
// and rejected the conforming {"n":1} for n: int? and {"alt":1} for alt: int | str (the JSON number rule was
// applied to a bare int only). Both engines share CheckType, so both behave alike.

import (
	"net/http"
	"net/http/httptest"
	"strings"
	"testing"

	"github.com/glyphlang/glyph/pkg/ast"
	"github.com/glyphlang/glyph/pkg/compiler"
	"github.com/glyphlang/glyph/pkg/server"
)

func TestGovcReplayC07WrappedTypes(t *testing.T) {
	src := ": Owner {\n  name: str!\n  age: int\n}\n: Item {\n  tags: [int]?\n  owner: Owner?\n  alt: int | str\n  list: List[int]\n  n: int?\n}\n@ POST /i {\n  < input: Item\n  > {ok: true}\n}\n"
	module, err := parseSource(src)
	if err != nil {
		t.Fatal(err)
	}
	var route *ast.Route
	for _, it := range module.Items {
		if r, ok := it.(*ast.Route); ok {
			route = r
		}
	}
	cases := []struct {
		body string
		want int
	}{
		{`{"tags":[1,2]}`, 200}, {`{"tags":["a"]}`, 400}, {`{"tags":[1.5]}`, 400},
		{`{"owner":{"name":"n","age":3}}`, 200}, {`{"owner":{"age":3}}`, 400}, {`{"owner":{"name":"n","age":"old"}}`, 400},
		{`{"list":[1]}`, 200}, {`{"list":["a"]}`, 400},
		{`{"n":1}`, 200}, {`{"n":1.5}`, 400}, {`{"alt":1}`, 200}, {`{"alt":"x"}`, 200}, {`{"alt":true}`, 400},
	}
	for _, c := range cases {
		run := func(h server.RouteHandler) int {
			rec := httptest.NewRecorder()
			req := httptest.NewRequest(http.MethodPost, "/i", strings.NewReader(c.body))
			req.Header.Set("Content-Type", "application/json")
			ctx := &server.Context{ResponseWriter: rec, Request: req, PathParams: map[string]string{}}
			_ = h(ctx)
			return rec.Code
		}
		interp := newConfiguredInterpreter()
		if err := interp.LoadModule(*module); err != nil {
			t.Fatal(err)
		}
		if got := run(createRouteHandler(route, interp)); got != c.want {
			t.Errorf("interpreted %s: status %d, want %d", c.body, got, c.want)
		}
		bytecode, err := compiler.NewCompilerWithOptLevel(compiler.OptBasic).CompileRoute(route)
		if err != nil {
			t.Fatal(err)
		}
		setCompiledTypeDefs(module)
		if got := run(createCompiledRouteHandler(route, bytecode, nil)); got != c.want {
			t.Errorf("compiled %s: status %d, want %d", c.body, got, c.want)
		}
	}
}
