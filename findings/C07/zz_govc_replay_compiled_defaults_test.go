package main

// Replay of the failed obligation
//   glyph.createCompiledRouteHandler$1#assert "bodyMap != nil && declC(route) ==> forall(j, ..., declCTD(route).Fields[j].Default != nil && litExpr(...) ==> has(bodyMap, declCTD(route).Fields[j].Name)) @ if err := validateCompiledInput(route, bodyMap); err != nil {"
// against the real code: the interpreter fills the declared defaults of the input type into the request body before it
// validates and binds `input`; the compiled handler bound the body as it came. For `role: str = "user"` the body
// {"name":"a"} reached the route as {"name":"a","role":"user"} under --interpret and as {"name":"a"} compiled
// ("defaults are applied exactly to absent fields ... in both execution modes").

import (
	"net/http/httptest"
	"strings"
	"testing"

	"github.com/glyphlang/glyph/pkg/ast"
	"github.com/glyphlang/glyph/pkg/compiler"
	"github.com/glyphlang/glyph/pkg/server"
)

func TestGovcReplayC07CompiledBodyDefaults(t *testing.T) {
	src := ": NewUser {\n  name: str!\n  role: str = \"user\"\n  level: int = 3\n}\n@ POST /u {\n  < input: NewUser\n  > input\n}\n"
	module, err := parseSource(src)
	if err != nil {
		t.Fatal(err)
	}
	var route *ast.Route
	for _, it := range module.Items {
		if r, ok := it.(*ast.Route); ok {
			route = r
		}
	}
	for _, body := range []string{`{"name":"a"}`, `{"name":"a","role":"admin"}`, `{"name":"a","role":null}`, `{"name":"a","level":9,"extra":true}`} {
		run := func(h server.RouteHandler) (int, string) {
			rec := httptest.NewRecorder()
			req := httptest.NewRequest("POST", "/u", strings.NewReader(body))
			req.Header.Set("Content-Type", "application/json")
			ctx := &server.Context{ResponseWriter: rec, Request: req, PathParams: map[string]string{}}
			_ = h(ctx)
			return rec.Code, strings.TrimSpace(rec.Body.String())
		}
		interp := newConfiguredInterpreter()
		if err := interp.LoadModule(*module); err != nil {
			t.Fatal(err)
		}
		ic, ib := run(createRouteHandler(route, interp))
		bytecode, err := compiler.NewCompilerWithOptLevel(compiler.OptBasic).CompileRoute(route)
		if err != nil {
			t.Fatal(err)
		}
		setCompiledTypeDefs(module)
		cc, cb := run(createCompiledRouteHandler(route, bytecode, nil))
		if ic != cc || ib != cb {
			t.Errorf("%s: interpreted %d %s, compiled %d %s", body, ic, ib, cc, cb)
		}
	}
}
