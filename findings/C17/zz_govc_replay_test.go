package web

// Replay of the failed obligation
//   (*web.StaticFileServer).ServeHTTP#pre@call:"os.Open: resolved(arg0) && within(s.absRoot, arg0)"
// against the real code: root/d/index.html is a symlink to a file outside the root; GET /d/ must not serve it.

import (
	"net/http"
	"net/http/httptest"
	"os"
	"path/filepath"
	"strings"
	"testing"
)

func TestGovcReplayC17IndexSymlink(t *testing.T) {
	base := t.TempDir()
	root := filepath.Join(base, "root")
	if err := os.MkdirAll(filepath.Join(root, "d"), 0o755); err != nil {
		t.Fatal(err)
	}
	secret := filepath.Join(base, "secret.txt")
	if err := os.WriteFile(secret, []byte("TOP-SECRET"), 0o644); err != nil {
		t.Fatal(err)
	}
	if err := os.Symlink(secret, filepath.Join(root, "d", "index.html")); err != nil {
		t.Skip("symlinks unavailable")
	}
	s, err := NewStaticFileServer(root)
	if err != nil {
		t.Fatal(err)
	}
	rec := httptest.NewRecorder()
	s.ServeHTTP(rec, httptest.NewRequest(http.MethodGet, "/d/", nil))
	if rec.Code == 200 || strings.Contains(rec.Body.String(), "TOP-SECRET") {
		t.Fatalf("REPRODUCED: file outside the root served: status %d body %q", rec.Code, rec.Body.String())
	}
}
