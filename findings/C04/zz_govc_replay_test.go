package main

// Replay of the failed obligation
//   glyph.createCompiledRouteHandler$1#pre@call "(*vm.VM).Execute: arg0.maxSteps > 0"
// against the real code: a compiled route whose loop never ends must end in an error response,
// not occupy the handler forever (the interpreter stops such a loop after 1,000,000 iterations).

import (
	"net/http"
	"net/http/httptest"
	"testing"
	"time"

	"github.com/glyphlang/glyph/pkg/parser"
)

func TestGovcReplayC04CompiledLoopIsBounded(t *testing.T) {
	src := "@ GET /spin {\n  $ i = 0\n  while i < 5 {\n    $ j = 1\n  }\n  > {done: true}\n}\n"
	tokens, err := parser.NewLexer(src).Tokenize()
	if err != nil {
		t.Fatal(err)
	}
	module, err := parser.NewParser(tokens).Parse()
	if err != nil {
		t.Fatal(err)
	}
	useCompiler, _, _, router, err := setupRoutes(module, "spin.glyph")
	if err != nil {
		t.Fatal(err)
	}
	if !useCompiler {
		t.Skip("module fell back to the interpreter")
	}
	h := createHandler(router)
	done := make(chan int, 1)
	go func() {
		rec := httptest.NewRecorder()
		h(rec, httptest.NewRequest(http.MethodGet, "/spin", nil))
		done <- rec.Code
	}()
	select {
	case code := <-done:
		if code < 500 {
			t.Fatalf("a non-terminating loop answered %d", code)
		}
	case <-time.After(20 * time.Second):
		t.Fatalf("REPRODUCED: the compiled route is still spinning after 20s (no step limit is ever set)")
	}
}
