package interpreter

// Replay of the failed structural obligation
//   structural:recursion-guarded|interpreter#cycle:...executeValidation...evaluateFunctionCall...executeFunction...
// against the real code: a validation statement `? f()` calls evaluateFunctionCall directly, not
// through EvaluateExpression, so a function whose body validates with itself recurses without ever
// meeting the evaluation-depth guard. The Go stack grows until the runtime kills the process
// (a goroutine stack overflow is fatal, not a recoverable panic): one request takes the server
// down. The test lowers the stack ceiling to 64 MiB to make that quick.

import (
	. "github.com/glyphlang/glyph/pkg/ast"
	"runtime/debug"
	"strings"
	"testing"
)

func TestGovcReplayC04ValidationRecursion(t *testing.T) {
	old := debug.SetMaxStack(64 << 20)
	defer debug.SetMaxStack(old)
	interp := NewInterpreter()
	err := interp.LoadModule(Module{Items: []Item{
		&Function{Name: "f", Params: []Field{}, Body: []Statement{
			ValidationStatement{Call: FunctionCallExpr{Name: "f", Args: []Expr{}}},
		}},
	}})
	if err != nil {
		t.Fatal(err)
	}
	_, err = interp.ExecuteStatement(ValidationStatement{Call: FunctionCallExpr{Name: "f", Args: []Expr{}}}, interp.globalEnv)
	if err == nil || !strings.Contains(err.Error(), "depth") {
		t.Errorf("runaway recursion through `? f()` was not stopped by the depth guard: %v", err)
	}
}
