package main

// Replay of the failed obligation
//   glyph.createRouteHandler$1#pre@call "(*json.Encoder).Encode: ctx.StatusCode >= 400"
// against the real code: the interpreted-route handler commits a non-200 success status before it
// encodes the body. A value JSON cannot carry (NaN from parseFloat("NaN")) then fails after the
// status line is out: the client sees 201 instead of a 5xx.

import (
	"net/http"
	"net/http/httptest"
	"testing"

	"github.com/glyphlang/glyph/pkg/ast"
	"github.com/glyphlang/glyph/pkg/server"
)

func TestGovcReplayC04SuccessStatusBeforeEncoding(t *testing.T) {
	src := "@ GET /v {\n  $ x = parseFloat(\"NaN\")\n  > {v: x} :: 201\n}\n"
	module, err := parseSource(src)
	if err != nil {
		t.Fatal(err)
	}
	interp := newConfiguredInterpreter()
	if err := interp.LoadModule(*module); err != nil {
		t.Fatal(err)
	}
	var route *ast.Route
	for _, it := range module.Items {
		if r, ok := it.(*ast.Route); ok {
			route = r
		}
	}
	h := createRouteHandler(route, interp)
	rec := httptest.NewRecorder()
	req := httptest.NewRequest(http.MethodGet, "/v", nil)
	ctx := &server.Context{ResponseWriter: rec, Request: req, PathParams: map[string]string{}}
	herr := h(ctx)
	if rec.Code >= 200 && rec.Code < 300 {
		t.Errorf("REPRODUCED: a result that cannot be encoded is answered with %d (handler error: %v, body %q)", rec.Code, herr, rec.Body.String())
	}
}
