package interpreter

// Replay of the failed obligation
//   interpreter.builtinRandomInt#pre@call "rand.Int63n: n > 0"
// against the real code: maxVal-minVal+1 wraps for ranges wider than 2^63-1, so
// randomInt(-9223372036854775807 - 1, 9223372036854775807) (and any range spanning more than half
// of the int64 line, e.g. randomInt(-5000000000000000000, 5000000000000000000)) calls
// rand.Int63n with a non-positive argument, which panics ("invalid argument to Int63n").

import (
	"math"
	"testing"

	. "github.com/glyphlang/glyph/pkg/ast"
)

func govcRandomInt(t *testing.T, lo, hi int64) {
	defer func() {
		if r := recover(); r != nil {
			t.Errorf("REPRODUCED: randomInt(%d, %d) panicked: %v", lo, hi, r)
		}
	}()
	interp := NewInterpreter()
	call := FunctionCallExpr{Name: "randomInt", Args: []Expr{
		LiteralExpr{Value: IntLiteral{Value: lo}}, LiteralExpr{Value: IntLiteral{Value: hi}}}}
	for k := 0; k < 50; k++ {
		v, err := interp.EvaluateExpression(call, interp.globalEnv)
		if err != nil {
			t.Fatalf("randomInt(%d, %d): %v", lo, hi, err)
		}
		n, ok := v.(int64)
		if !ok || n < lo || n > hi {
			t.Fatalf("randomInt(%d, %d) = %v, outside the range", lo, hi, v)
		}
	}
}

func TestGovcReplayC04RandomIntRange(t *testing.T) {
	govcRandomInt(t, math.MinInt64, math.MaxInt64)
	govcRandomInt(t, -5000000000000000000, 5000000000000000000)
	govcRandomInt(t, math.MinInt64, 0)
	govcRandomInt(t, -3, 4)
	govcRandomInt(t, 7, 7)
}
