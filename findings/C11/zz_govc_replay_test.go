package main

// Replay of the failed obligations
//   glyph.rateLimitMiddleware#pre@call:"server.RateLimitMiddleware: arg0.BurstSize == int(limit.Requests)"
//   glyph.rateLimitMiddleware#pre@call:"server.RateLimitMiddleware: ite(rlSec(...) ..."   (rate per window)
// against the real code (solver models: Requests=1 with a second window; Requests=1 with an hour window).
// A declared N/window must admit at most N requests at once (a bucket of N).

import (
	"net/http"
	"net/http/httptest"
	"testing"

	"github.com/glyphlang/glyph/pkg/ast"
	"github.com/glyphlang/glyph/pkg/server"
)

func govcReplayBurst(t *testing.T, limit *ast.RateLimit) int {
	mw := rateLimitMiddleware(limit)
	if mw == nil {
		t.Fatal("no middleware")
	}
	h := mw(func(ctx *server.Context) error { ctx.StatusCode = 200; return nil })
	n := 0
	for i := 0; i < 200; i++ {
		rec := httptest.NewRecorder()
		req := httptest.NewRequest(http.MethodGet, "/x", nil)
		req.RemoteAddr = "203.0.113.9:1234"
		ctx := &server.Context{Request: req, ResponseWriter: rec}
		_ = h(ctx)
		if rec.Code != 429 && ctx.StatusCode == 200 {
			n++
		}
	}
	return n
}

func TestGovcReplayC11WindowUnits(t *testing.T) {
	if n := govcReplayBurst(t, &ast.RateLimit{Requests: 1, Window: "sec"}); n > 1 {
		t.Errorf("REPRODUCED: ratelimit(1/sec) admitted %d requests at once (bucket must hold 1)", n)
	}
	if n := govcReplayBurst(t, &ast.RateLimit{Requests: 120, Window: "hour"}); n != 120 {
		t.Errorf("REPRODUCED: ratelimit(120/hour) admitted a burst of %d (bucket must hold 120)", n)
	}
}
