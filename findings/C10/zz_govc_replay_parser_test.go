package parser

// Replay of the failed structural obligations
//   structural:recursion-guarded|parser#cycle:...parseStatement...      (nested if / while / for / switch, else-if chains)
//   structural:recursion-guarded|parser#cycle:(*parser.Parser).parseUnary   (!!!!...x, ----...x)
//   structural:recursion-guarded|parser#cycle:...parsePattern...        (nested array patterns)
//   structural:recursion-guarded|parser#cycle:...parseSingleType...     (nested [[[[int]]]] types)
// against the real code: the only depth guard of the parser sits in parseExpr, and these cycles of
// the call graph do not pass through it, so the nesting of the input drives the Go stack without
// bound. A goroutine stack overflow is fatal (not a recoverable panic): the process dies. The
// test lowers the stack ceiling to 64 MiB so that a few hundred kilobytes of source suffice;
// with the default 1 GiB ceiling the inputs are ~16x longer.

import (
	"runtime/debug"
	"strings"
	"testing"
)

func govcParse(src string) error {
	toks, err := NewLexer(src).Tokenize()
	if err != nil {
		return err
	}
	_, err = NewParser(toks).Parse()
	return err
}

func govcDeep(t *testing.T, name, src string) {
	old := debug.SetMaxStack(64 << 20)
	defer debug.SetMaxStack(old)
	err := govcParse(src)
	if err == nil {
		t.Errorf("%s: accepted", name)
		return
	}
	if !strings.Contains(err.Error(), "nesting depth") {
		t.Logf("%s: rejected with: %.120s", name, err.Error())
	}
}

func TestGovcReplayC10NestedStatements(t *testing.T) {
	n := 200000
	src := "@ GET /x {\n" + strings.Repeat("if true {\n", n) + "> 1\n" + strings.Repeat("}\n", n) + "}\n"
	govcDeep(t, "nested if", src)
}

func TestGovcReplayC10UnaryChain(t *testing.T) {
	src := "@ GET /x {\n> " + strings.Repeat("!", 400000) + "true\n}\n"
	govcDeep(t, "unary chain", src)
}

func TestGovcReplayC10NestedTypes(t *testing.T) {
	n := 200000
	src := ": T {\n  a: " + strings.Repeat("[", n) + "int" + strings.Repeat("]", n) + "\n}\n"
	govcDeep(t, "nested array type", src)
}

func TestGovcReplayC10NestedPatterns(t *testing.T) {
	n := 200000
	src := "@ GET /x {\n$ r = match 1 {\n" + strings.Repeat("[", n) + "x" + strings.Repeat("]", n) + " => 1\n_ => 2\n}\n> r\n}\n"
	govcDeep(t, "nested array pattern", src)
}
