package vm

// Replay of the failed obligations
//   (*vm.VM).execBuildArray#alloc-bounded "arr := make([]Value, elemCount)"   (likewise execCall)
// against the real code: a 13-byte instruction stream makes the VM allocate operand-many slots
// before it notices that the stack is empty.

import (
	"encoding/binary"
	"runtime"
	"testing"
)

func govcReplayAlloc(t *testing.T, name string, op Opcode) {
	code := []byte{byte(op), 0, 0, 0, 0}
	binary.LittleEndian.PutUint32(code[1:], 20_000_000)
	m := NewVM()
	var before, after runtime.MemStats
	runtime.GC()
	runtime.ReadMemStats(&before)
	_, err := m.executeRaw(code)
	runtime.ReadMemStats(&after)
	if err == nil {
		t.Errorf("%s: malformed code accepted", name)
	}
	if grown := after.TotalAlloc - before.TotalAlloc; grown > 64<<20 {
		t.Errorf("REPRODUCED: %s: a 5-byte instruction allocated %d MiB", name, grown>>20)
	}
}

func TestGovcReplayC10OperandSizedAllocation(t *testing.T) {
	govcReplayAlloc(t, "BuildArray", OpBuildArray)
	govcReplayAlloc(t, "Call", OpCall)
}
