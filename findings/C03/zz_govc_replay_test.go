package tests

// Replay of the recorded findings
//   (*compiler.Optimizer).algebraicSimplify#post ... (one obligation per rewrite, see /verif/known_findings.txt)
// against the real code: each route is compiled without optimisation and at levels 1 and 2 and run on the
// VM with the same request; the rewrite changes the outcome for the shown value of the path parameter x
// (a string at run time) or of the variable b.

import (
	"fmt"
	"testing"

	"github.com/glyphlang/glyph/pkg/ast"
	"github.com/glyphlang/glyph/pkg/compiler"
	"github.com/glyphlang/glyph/pkg/vm"
)

func govcRunAt(t *testing.T, expr ast.Expr, lvl compiler.OptimizationLevel, x string) string {
	// the tree is built through the library API with pointer-form nodes (the form the optimizer rewrites)
	route := &ast.Route{Path: "/r/:x", Method: ast.Get, Body: []ast.Statement{&ast.ReturnStatement{Value: expr}}}
	bc, err := compiler.NewCompilerWithOptLevel(lvl).CompileRoute(route)
	if err != nil {
		return "compile error: " + err.Error()
	}
	m := vm.NewVM()
	m.SetLocal("x", vm.StringValue{Val: x})
	v, err := m.Execute(bc)
	if err != nil {
		return "error: " + err.Error()
	}
	return fmt.Sprintf("value: %v", v)
}

func TestGovcReplayC03AlgebraicSimplify(t *testing.T) {
	x := func() ast.Expr { return &ast.VariableExpr{Name: "x"} }
	i := func(n int64) ast.Expr { return &ast.LiteralExpr{Value: ast.IntLiteral{Value: n}} }
	b := func(v bool) ast.Expr { return &ast.LiteralExpr{Value: ast.BoolLiteral{Value: v}} }
	bin := func(op ast.BinOp, l, r ast.Expr) ast.Expr { return &ast.BinaryOpExpr{Op: op, Left: l, Right: r} }
	for _, c := range []struct {
		rewrite string
		expr    func() ast.Expr
	}{
		{"x + 0 -> x", func() ast.Expr { return bin(ast.Add, x(), i(0)) }},
		{"x - 0 -> x", func() ast.Expr { return bin(ast.Sub, x(), i(0)) }},
		{"x * 1 -> x", func() ast.Expr { return bin(ast.Mul, x(), i(1)) }},
		{"x / 1 -> x", func() ast.Expr { return bin(ast.Div, x(), i(1)) }},
		{"x * 0 -> 0", func() ast.Expr { return bin(ast.Mul, x(), i(0)) }},
		{"x * 2 -> x + x", func() ast.Expr { return bin(ast.Mul, x(), i(2)) }},
		{"true && x -> x", func() ast.Expr { return bin(ast.And, b(true), x()) }},
		{"x && false -> false", func() ast.Expr { return bin(ast.And, x(), b(false)) }},
		{"x || true -> true", func() ast.Expr { return bin(ast.Or, x(), b(true)) }},
		{"false || x -> x", func() ast.Expr { return bin(ast.Or, b(false), x()) }},
	} {
		base := govcRunAt(t, c.expr(), compiler.OptNone, "ab")
		for _, lvl := range []compiler.OptimizationLevel{compiler.OptBasic, compiler.OptAggressive} {
			if got := govcRunAt(t, c.expr(), lvl, "ab"); got != base {
				t.Errorf("REPRODUCED: %s: with x = \"ab\", unoptimised gives [%s], level %d gives [%s]", c.rewrite, base, lvl, got)
				break
			}
		}
	}
}
