package tests

// Replay of the recorded findings
//   (*compiler.Optimizer).OptimizeStatements#assert ... (see /verif/known_findings.txt)
// against the real code: each statement list (built through the library API, pointer-form nodes) is compiled without
// optimisation and at levels 1 and 2 and run on the VM with the same path parameter x; the outcomes differ.

import (
	"fmt"
	"testing"

	"github.com/glyphlang/glyph/pkg/ast"
	"github.com/glyphlang/glyph/pkg/compiler"
	"github.com/glyphlang/glyph/pkg/vm"
)

func govcRunBody(body []ast.Statement, lvl compiler.OptimizationLevel, x string) string {
	route := &ast.Route{Path: "/r/:x", Method: ast.Get, Body: body}
	bc, err := compiler.NewCompilerWithOptLevel(lvl).CompileRoute(route)
	if err != nil {
		return "compile error: " + err.Error()
	}
	m := vm.NewVM()
	m.SetMaxSteps(100000)
	m.SetLocal("x", vm.StringValue{Val: x})
	v, err := m.Execute(bc)
	if err != nil {
		return "error: " + err.Error()
	}
	return fmt.Sprintf("value: %v", v)
}

func TestGovcReplayC03Dataflow(t *testing.T) {
	v := func(n string) ast.Expr { return &ast.VariableExpr{Name: n} }
	i := func(n int64) ast.Expr { return &ast.LiteralExpr{Value: ast.IntLiteral{Value: n}} }
	s := func(x string) ast.Expr { return &ast.LiteralExpr{Value: ast.StringLiteral{Value: x}} }
	bin := func(op ast.BinOp, l, r ast.Expr) ast.Expr { return &ast.BinaryOpExpr{Op: op, Left: l, Right: r} }
	progs := []struct {
		name string
		x    string
		body func() []ast.Statement
	}{
		// $ a = 1; if x == "yes" { a = 2 }; > a           -- the fact a == 2 leaves the branch
		{"constant assigned in a branch that does not run", "no", func() []ast.Statement {
			return []ast.Statement{
				&ast.AssignStatement{Target: "a", Value: i(1)},
				&ast.IfStatement{Condition: bin(ast.Eq, v("x"), s("yes")), ThenBlock: []ast.Statement{&ast.ReassignStatement{Target: "a", Value: i(2)}}},
				&ast.ReturnStatement{Value: v("a")},
			}
		}},
		// $ p = x + "1"; $ q = p; p = x + "2"; > q         -- q is still read as a copy of p
		{"copy of a variable that is reassigned afterwards", "v", func() []ast.Statement {
			return []ast.Statement{
				&ast.AssignStatement{Target: "p", Value: bin(ast.Add, v("x"), s("1"))},
				&ast.AssignStatement{Target: "q", Value: v("p")},
				&ast.ReassignStatement{Target: "p", Value: bin(ast.Add, v("x"), s("2"))},
				&ast.ReturnStatement{Value: v("q")},
			}
		}},
		// $ a = 1; while x == "yes" { a = 5; x = "no" }; > a   -- the fact a == 5 leaves a loop that never ran
		{"constant assigned in a loop body that never runs", "no", func() []ast.Statement {
			return []ast.Statement{
				&ast.AssignStatement{Target: "a", Value: i(1)},
				&ast.WhileStatement{Condition: bin(ast.Eq, v("x"), s("yes")), Body: []ast.Statement{
					&ast.ReassignStatement{Target: "a", Value: i(5)},
					&ast.ReassignStatement{Target: "x", Value: s("no")},
				}},
				&ast.ReturnStatement{Value: v("a")},
			}
		}},
		// while x == "yes" { $ t = 10 / 0 ; x = "no" }; > 7   -- the hoisted assignment runs (and fails) although the loop does not
		{"loop-invariant assignment hoisted out of a loop that never runs", "no", func() []ast.Statement {
			return []ast.Statement{
				&ast.WhileStatement{Condition: bin(ast.Eq, v("x"), s("yes")), Body: []ast.Statement{
					&ast.AssignStatement{Target: "t", Value: bin(ast.Div, i(10), i(0))},
					&ast.ReassignStatement{Target: "x", Value: s("no")},
				}},
				&ast.ReturnStatement{Value: i(7)},
			}
		}},
	}
	for _, p := range progs {
		base := govcRunBody(p.body(), compiler.OptNone, p.x)
		for _, lvl := range []compiler.OptimizationLevel{compiler.OptBasic, compiler.OptAggressive} {
			if got := govcRunBody(p.body(), lvl, p.x); got != base {
				t.Errorf("REPRODUCED: %s (x = %q): unoptimised gives [%s], level %d gives [%s]", p.name, p.x, base, lvl, got)
				break
			}
		}
	}
}
