package cache

// Replay of the failed obligation
//   (*cache.LRUCache).Set#monitor-inv@unlock "defer c.mu.Unlock()"#2   (wfMax: c.maxSize > 0 ==> c.currentSize <= c.maxSize)
// against the real code: replacing the value of an existing key with a larger one adjusted the byte
// count in place and evicted nothing, so the cache held more bytes than its configured limit.

import (
	"strings"
	"testing"
)

func TestGovcReplayC20InPlaceUpdateExceedsByteLimit(t *testing.T) {
	for _, withTags := range []bool{false, true} {
		c := NewLRUCache(WithCapacity(10), WithMaxSize(100))
		set := func(k, v string) {
			if withTags {
				_ = c.SetWithTags(k, v, 0, []string{"t"})
			} else {
				_ = c.Set(k, v, 0)
			}
		}
		set("a", strings.Repeat("x", 40))
		set("b", strings.Repeat("y", 40))
		set("a", strings.Repeat("z", 90)) // update in place: 40 -> 90 bytes
		st := c.Stats()
		if st.Size > st.MaxSize {
			t.Errorf("REPRODUCED (tags=%v): the cache holds %d bytes, its limit is %d", withTags, st.Size, st.MaxSize)
		}
		if v, ok := c.Get("a"); !ok || v.(string) != strings.Repeat("z", 90) {
			t.Errorf("the updated key lost its value")
		}
		c.Close()
	}
}
