package cache

// Replay of the failed obligation  (*cache.LRUCache).Set#decreases:"loop 1: llen(c.evictList)"
// against the real code: with an empty list the eviction loop makes no progress, so Set never
// returns (holding the lock) for capacity 0 or a value larger than the size limit.

import (
	"testing"
	"time"
)

func govcReplaySetReturns(t *testing.T, name string, c *LRUCache, v interface{}) {
	done := make(chan struct{})
	go func() { _ = c.Set("a", v, 0); close(done) }()
	select {
	case <-done:
	case <-time.After(2 * time.Second):
		t.Errorf("REPRODUCED: %s: Set did not return within 2s", name)
	}
}

func TestGovcReplayC20SetTerminates(t *testing.T) {
	govcReplaySetReturns(t, "capacity 0", NewLRUCache(WithCapacity(0)), 1)
	govcReplaySetReturns(t, "value larger than maxSize", NewLRUCache(WithMaxSize(4)), "12345678")
}
