package interpreter

// Replay of the failed obligation
//   interpreter.builtinAppend#post "... ==> len(result) == 0 || fresh(base(result)) @ return append(arr, item), nil"
// against the real code: append() hands Go's append the argument's backing array. Once an array has
// spare capacity (after its first growth), two arrays appended from the same source share the slot
// behind its end: building the second one overwrites the last element of the first. Arrays are
// values in GlyphLang; the outcome here depends on capacities, not on the program's values.

import (
	"reflect"
	"testing"

	. "github.com/glyphlang/glyph/pkg/ast"
)

func TestGovcReplayC01AppendAliasesArgument(t *testing.T) {
	interp := NewInterpreter()
	lit := func(n int64) Expr { return LiteralExpr{Value: IntLiteral{Value: n}} }
	call := func(name string, args ...Expr) Expr { return FunctionCallExpr{Name: name, Args: args} }
	v := func(n string) Expr { return VariableExpr{Name: n} }
	env := interp.globalEnv
	stmts := []Statement{
		AssignStatement{Target: "a", Value: ArrayExpr{Elements: []Expr{lit(1), lit(2), lit(3)}}},
		AssignStatement{Target: "a2", Value: call("append", v("a"), lit(4))},  // grows: spare capacity from here on
		AssignStatement{Target: "b", Value: call("append", v("a2"), lit(5))},
		AssignStatement{Target: "c", Value: call("append", v("a2"), lit(6))},
	}
	for _, s := range stmts {
		if _, err := interp.ExecuteStatement(s, env); err != nil {
			t.Fatal(err)
		}
	}
	b, _ := env.Get("b")
	want := []interface{}{int64(1), int64(2), int64(3), int64(4), int64(5)}
	if !reflect.DeepEqual(b, want) {
		t.Errorf("REPRODUCED: b = append(a2, 5) reads %v after c = append(a2, 6); want %v", b, want)
	}
}
