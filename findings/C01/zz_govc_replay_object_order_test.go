package main

// Replay of the failed obligations
//   interpreter.sortedKeys#post / interpreter.builtinKeys#post "... !strlt(result[i+1], result[i]) ..."  (keys() in ascending order)
//   (*vm.VM).execGetIter#assert "forall(i, 0, len(iter.keys) - 1, !strlt(iter.keys[i+1], iter.keys[i])) @ iterID := vm.nextIterID"
// against the real code: objects are Go maps and both engines walked them with `range`, whose order is random.
// The same request got different answers from run to run: keys({b: 1, a: 2, c: 3}) and the string built by
// `for k, v in {b: 1, a: 2, c: 3, d: 4}` ("the outcome is a function of the program text and its inputs only").

import (
	"net/http/httptest"
	"strings"
	"testing"

	"github.com/glyphlang/glyph/pkg/ast"
	"github.com/glyphlang/glyph/pkg/compiler"
	"github.com/glyphlang/glyph/pkg/server"
)

func TestGovcReplayC01ObjectOrder(t *testing.T) {
	loop := "@ GET /e {\n  $ s = \"\"\n  for k, v in {b: 1, a: 2, c: 3, d: 4} {\n    s = s + k\n  }\n  > {v: s}\n}\n"
	keys := "@ GET /e {\n  > {k: keys({b: 1, a: 2, c: 3, d: 4})}\n}\n"
	answers := func(src string, compiled bool) map[string]int {
		module, err := parseSource(src)
		if err != nil {
			t.Fatal(err)
		}
		var route *ast.Route
		for _, it := range module.Items {
			if r, ok := it.(*ast.Route); ok {
				route = r
			}
		}
		seen := map[string]int{}
		for n := 0; n < 40; n++ {
			var h server.RouteHandler
			if compiled {
				bc, err := compiler.NewCompilerWithOptLevel(compiler.OptBasic).CompileRoute(route)
				if err != nil {
					t.Fatal(err)
				}
				h = createCompiledRouteHandler(route, bc, nil)
			} else {
				interp := newConfiguredInterpreter()
				if err := interp.LoadModule(*module); err != nil {
					t.Fatal(err)
				}
				h = createRouteHandler(route, interp)
			}
			rec := httptest.NewRecorder()
			_ = h(&server.Context{ResponseWriter: rec, Request: httptest.NewRequest("GET", "/e", nil), PathParams: map[string]string{}})
			seen[strings.TrimSpace(rec.Body.String())]++
		}
		return seen
	}
	li, lc, ki := answers(loop, false), answers(loop, true), answers(keys, false)
	if len(li) != 1 || len(lc) != 1 || len(ki) != 1 {
		t.Errorf("REPRODUCED: the same request has several answers: for-loop interpreted %v, compiled %v; keys() %v", li, lc, ki)
	}
	for a := range li {
		if _, same := lc[a]; !same {
			t.Errorf("interpreted %v, compiled %v", li, lc)
		}
	}
}
