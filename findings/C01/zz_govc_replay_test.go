package interpreter

// Replay of the failed obligation
//   (*interpreter.Interpreter).evaluateEq#ifacecmp "return left == right, nil"
// against the real code: == on two arrays (or two objects) is a Go comparison of
// uncomparable dynamic types and panics inside the evaluator instead of producing a value.

import "testing"

func TestGovcReplayC01EqOnArraysPanics(t *testing.T) {
	i := NewInterpreter()
	for _, c := range []struct{ l, r interface{} }{
		{[]interface{}{int64(1)}, []interface{}{int64(1)}},
		{map[string]interface{}{"a": int64(1)}, map[string]interface{}{"a": int64(1)}},
	} {
		func() {
			defer func() {
				if r := recover(); r != nil {
					t.Errorf("REPRODUCED: evaluateEq(%T, %T) panicked: %v", c.l, c.r, r)
				}
			}()
			if _, err := i.evaluateEq(c.l, c.r); err != nil {
				t.Logf("error result: %v", err)
			}
			if _, err := i.evaluateNe(c.l, c.r); err != nil {
				t.Logf("error result: %v", err)
			}
		}()
	}
}
