package main

// Replay of the failed obligation
//   (*glyph.hotReloadManager).startServer#monitor-inv@unlock "defer m.mu.Unlock()"  (m.server != nil ==> running(m.server))
// against the real code: a syntactically broken edit must leave the previous version serving.

import (
	"fmt"
	"net"
	"net/http"
	"os"
	"path/filepath"
	"testing"
	"time"
)

func TestGovcReplayC19BrokenEditKeepsServer(t *testing.T) {
	l, err := net.Listen("tcp", "127.0.0.1:0")
	if err != nil {
		t.Skip(err)
	}
	port := l.Addr().(*net.TCPAddr).Port
	l.Close()
	dir := t.TempDir()
	file := filepath.Join(dir, "app.glyph")
	if err := os.WriteFile(file, []byte("@ GET /ping {\n  > {ok: true}\n}\n"), 0o644); err != nil {
		t.Fatal(err)
	}
	m := &hotReloadManager{filePath: file, port: port, liveReloadConns: map[*liveReloadConn]bool{}}
	if err := m.startServer(); err != nil {
		t.Fatalf("initial start: %v", err)
	}
	defer func() {
		if m.server != nil {
			m.server.Close()
		}
	}()
	url := fmt.Sprintf("http://127.0.0.1:%d/ping", port)
	get := func() error {
		c := http.Client{Timeout: 2 * time.Second}
		resp, err := c.Get(url)
		if err != nil {
			return err
		}
		resp.Body.Close()
		if resp.StatusCode != 200 {
			return fmt.Errorf("status %d", resp.StatusCode)
		}
		return nil
	}
	if err := get(); err != nil {
		t.Skipf("server did not come up: %v", err)
	}
	// a broken save
	os.WriteFile(file, []byte("@ GET /ping {\n  > {ok: \n"), 0o644)
	if err := m.startServer(); err == nil {
		t.Skip("broken source unexpectedly loaded")
	}
	if err := get(); err != nil {
		t.Fatalf("REPRODUCED: after a failed reload nothing answers on the port: %v", err)
	}
}
