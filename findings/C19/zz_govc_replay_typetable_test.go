package main

// Replay of the failed obligation
//   glyph.setupRoutes#post "err != nil ==> compiledTypeDefs == old(compiledTypeDefs) @ return"
// against the real code: setupRoutes replaces the package-level type table of compiled routes before
// it compiles the routes. An edit that fails to compile (a semantic error) is rejected and the
// previous server keeps running - but its compiled handlers now validate request bodies against the
// types of the rejected edit: a request that the last successfully loaded version accepts gets 400.

import (
	"fmt"
	"net"
	"net/http"
	"os"
	"path/filepath"
	"strings"
	"testing"
	"time"
)

func TestGovcReplayC19RejectedEditLeaksTypes(t *testing.T) {
	l, err := net.Listen("tcp", "127.0.0.1:0")
	if err != nil {
		t.Skip(err)
	}
	port := l.Addr().(*net.TCPAddr).Port
	l.Close()
	dir := t.TempDir()
	file := filepath.Join(dir, "app.glyph")
	v1 := ": User {\n  name: str!\n}\n\n@ POST /users {\n  < input: User\n  > {name: input.name}\n}\n"
	if err := os.WriteFile(file, []byte(v1), 0o644); err != nil {
		t.Fatal(err)
	}
	m := &hotReloadManager{filePath: file, port: port, liveReloadConns: map[*liveReloadConn]bool{}}
	if err := m.startServer(); err != nil {
		t.Fatalf("initial start: %v", err)
	}
	defer func() {
		if m.server != nil {
			m.server.Close()
		}
	}()
	post := func() (int, error) {
		c := http.Client{Timeout: 2 * time.Second}
		resp, err := c.Post(fmt.Sprintf("http://127.0.0.1:%d/users", port), "application/json", strings.NewReader(`{"name":"ann"}`))
		if err != nil {
			return 0, err
		}
		resp.Body.Close()
		return resp.StatusCode, nil
	}
	var code int
	for i := 0; i < 50; i++ {
		if code, err = post(); err == nil {
			break
		}
		time.Sleep(50 * time.Millisecond)
	}
	if err != nil || code != 200 {
		t.Fatalf("version 1 does not accept its own request: %v %d", err, code)
	}
	// the edit: User gains a required field, and the route body has a semantic error (redeclaration)
	v2 := ": User {\n  name: str!\n  age: int!\n}\n\n@ POST /users {\n  < input: User\n  $ x = 1\n  $ x = 2\n  > {name: input.name}\n}\n"
	if err := os.WriteFile(file, []byte(v2), 0o644); err != nil {
		t.Fatal(err)
	}
	if err := m.startServer(); err == nil {
		t.Skip("the edit was accepted; the scenario needs an edit that fails to compile")
	}
	code, err = post()
	if err != nil {
		t.Fatalf("server gone after a rejected edit: %v", err)
	}
	if code != 200 {
		t.Errorf("REPRODUCED: after a rejected edit the running version answers %d to a request it accepted before (type table of the rejected edit in force)", code)
	}
}
