package interpreter

// Replay of the failed obligations
//   interpreter.CallMethod#inv-step:"loop 1: forall(j, 0, rangeidx, rfValid(methodArgs[j]))"
//   interpreter.CallMethod#pre@call:"(reflect.Value).Call: forall(i, 0, len(in), rfAssignable(...))"
// against the real code: a null or mistyped argument must yield an error, not a panic.

import "testing"

type govcReplayProvider struct{}

func (govcReplayProvider) Get(id interface{}) interface{} { return id }
func (govcReplayProvider) Count(n int) int                { return n }

func TestGovcReplayC12NilAndMistypedArgs(t *testing.T) {
	for _, tc := range []struct {
		name string
		m    string
		arg  interface{}
	}{{"null argument", "Get", nil}, {"null for int", "Count", nil}, {"string for int", "Count", "x"}} {
		func() {
			defer func() {
				if r := recover(); r != nil {
					t.Errorf("REPRODUCED: %s: CallMethod panicked: %v", tc.name, r)
				}
			}()
			_, _ = CallMethod(govcReplayProvider{}, tc.m, tc.arg)
		}()
	}
}
