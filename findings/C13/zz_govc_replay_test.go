package database

// Replay of the failed obligation
//   database.sanitizeSQLiteColumnType#post:"err == nil ==> strictColType(result) @ return colType, nil"
// (same for sanitizeColumnType / sanitizeMySQLColumnType) against the real code: a column "type" may contain
// a comma outside parentheses, so one schema entry smuggles a second column definition into CREATE TABLE.

import (
	"context"
	"testing"
)

func TestGovcReplayC13ColumnTypeSmugglesColumn(t *testing.T) {
	ctx := context.Background()
	db := NewSQLiteDB(&Config{Driver: "sqlite"})
	if err := db.Connect(ctx); err != nil {
		t.Skip(err)
	}
	defer db.Close()
	if err := db.CreateTable(ctx, "accounts", map[string]string{"name": "VARCHAR(10), is_admin INTEGER DEFAULT 1"}); err != nil {
		return // rejected: the property holds for this input
	}
	rows, err := db.Query(ctx, "SELECT name FROM pragma_table_info('accounts')")
	if err != nil {
		t.Skip(err)
	}
	defer rows.Close()
	var cols []string
	for rows.Next() {
		var c string
		rows.Scan(&c)
		cols = append(cols, c)
	}
	if len(cols) != 1 {
		t.Fatalf("REPRODUCED: one declared column produced the columns %v", cols)
	}
}
