package main

// Replay of the failed obligation
//   glyph.setupRoutes#assert "forall(n, string, c.calls != nil && has(c.calls, n) ==> vmHas(n)) @ compiledByRoute[route] = bytecode"
// against the real code: the VM resolves a call by name among its own eleven built-ins only - it runs no user-defined
// function and lacks most of the interpreter's built-ins - yet setupRoutes registered compiled handlers for routes that
// call such functions. In the default (compiled) mode `> {v: double(2)}` and `> {v: toString(2)}` answered 500
// ("undefined function"), under --interpret 200.

import (
	"net/http/httptest"
	"strings"
	"testing"
)

func TestGovcReplayC02CallsTheVMCannotRun(t *testing.T) {
	for _, src := range []string{
		"! double(x: int): int {\n  > x * 2\n}\n@ GET /d {\n  > {v: double(2)}\n}\n",
		"@ GET /d {\n  > {v: toString(2)}\n}\n",
		"@ GET /d {\n  $ f = async {\n    > keys({a: 1})\n  }\n  > {v: await f}\n}\n",
		"@ GET /d {\n  > {v: upper(\"a\")}\n}\n",
	} {
		module, err := parseSource(src)
		if err != nil {
			t.Fatal(err)
		}
		var answers []string
		for _, forceInterpreter := range []bool{true, false} {
			_, _, _, router, err := setupRoutes(module, "replay.glyph", forceInterpreter)
			if err != nil {
				t.Fatal(err)
			}
			rec := httptest.NewRecorder()
			createHandler(router)(rec, httptest.NewRequest("GET", "/d", nil))
			answers = append(answers, strings.TrimSpace(rec.Body.String()))
			if rec.Code != 200 {
				t.Errorf("%q forceInterpreter=%v: status %d %s", src, forceInterpreter, rec.Code, rec.Body.String())
			}
		}
		if answers[0] != answers[1] {
			t.Errorf("%q: --interpret answers %s, default mode answers %s", src, answers[0], answers[1])
		}
	}
}
