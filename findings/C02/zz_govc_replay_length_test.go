package main

// Replay of the failed obligation
//   (*vm.VM).registerBuiltins$3#post "len(args) == 1 ==> ((result1 == nil) == lenOK(kindV(args[0])))"
// against the real code: the interpreter's length() counts the entries of an object (pinned by its
// tests), the VM's length() rejects an object. A route that calls length({...}) answers 200 under
// --interpret and 500 when compiled (the default).

import (
	"net/http"
	"net/http/httptest"
	"testing"

	"github.com/glyphlang/glyph/pkg/ast"
	"github.com/glyphlang/glyph/pkg/compiler"
	"github.com/glyphlang/glyph/pkg/server"
)

func TestGovcReplayC02LengthOfObject(t *testing.T) {
	src := "@ GET /n {\n  $ o = {a: 1, b: 2}\n  > {n: length(o)}\n}\n"
	module, err := parseSource(src)
	if err != nil {
		t.Fatal(err)
	}
	var route *ast.Route
	for _, it := range module.Items {
		if r, ok := it.(*ast.Route); ok {
			route = r
		}
	}
	run := func(h server.RouteHandler) (int, string) {
		rec := httptest.NewRecorder()
		ctx := &server.Context{ResponseWriter: rec, Request: httptest.NewRequest(http.MethodGet, "/n", nil), PathParams: map[string]string{}}
		_ = h(ctx)
		return rec.Code, rec.Body.String()
	}
	interp := newConfiguredInterpreter()
	if err := interp.LoadModule(*module); err != nil {
		t.Fatal(err)
	}
	ic, ib := run(createRouteHandler(route, interp))
	bytecode, err := compiler.NewCompilerWithOptLevel(compiler.OptBasic).CompileRoute(route)
	if err != nil {
		t.Fatal(err)
	}
	cc, cb := run(createCompiledRouteHandler(route, bytecode, nil))
	if ic != cc || ib != cb {
		t.Errorf("REPRODUCED: interpreted %d %q, compiled %d %q", ic, ib, cc, cb)
	}
}
