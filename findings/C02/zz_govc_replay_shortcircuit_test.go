package tests

// Replay of the failed obligation
//   (*compiler.Compiler).compileBinaryOp#... (&& and || must not evaluate the right operand when the left one decides)
// against the real code: the interpreter short-circuits && and ||, compiled code evaluated both operands and
// then applied OpAnd/OpOr, so a guarded expression such as `d != 0 && 10 / d > 1` answered on the interpreter
// and failed with "division by zero" when compiled (the default engine).

import (
	"testing"

	"github.com/glyphlang/glyph/pkg/ast"
	"github.com/glyphlang/glyph/pkg/compiler"
	"github.com/glyphlang/glyph/pkg/interpreter"
	"github.com/glyphlang/glyph/pkg/vm"
)

func TestGovcReplayC02ShortCircuit(t *testing.T) {
	for _, source := range []string{
		"@ GET /guard {\n  $ d = 0\n  > {ok: d != 0 && 10 / d > 1}\n}",
		"@ GET /guard {\n  $ d = 0\n  > {ok: d == 0 || 10 / d > 1}\n}",
	} {
		module, err := parseSource(source)
		if err != nil {
			t.Fatalf("parse: %v", err)
		}
		var route *ast.Route
		for _, item := range module.Items {
			if r, ok := item.(*ast.Route); ok {
				route = r
			}
		}
		interp := interpreter.NewInterpreter()
		if err := interp.LoadModule(*module); err != nil {
			t.Fatalf("load: %v", err)
		}
		iv, ierr := interp.ExecuteRouteSimple(route, map[string]string{})
		for _, lvl := range []compiler.OptimizationLevel{compiler.OptNone, compiler.OptBasic, compiler.OptAggressive} {
			bc, err := compiler.NewCompilerWithOptLevel(lvl).CompileRoute(route)
			if err != nil {
				t.Fatalf("compile: %v", err)
			}
			vv, verr := vm.NewVM().Execute(bc)
			if (ierr == nil) != (verr == nil) {
				t.Errorf("REPRODUCED: opt level %d: interpreter (%v, err=%v), compiled (%v, err=%v)\n%s", lvl, iv, ierr, vv, verr, source)
			}
		}
	}
}
