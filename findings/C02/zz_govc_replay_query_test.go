package main

// Replay of the failed obligation
//   glyph.createCompiledRouteHandler$1#pre@call "interpreter.ProcessQueryParams: qsrc(arg0) == ctx.Request.URL.RawQuery"
// against the real code: the compiled handler took its raw query parameters from URL.Query(), which silently drops
// every pair it cannot parse (a bad percent escape, a ";"), the interpreted handler splits the raw query itself and
// reports those. GET /q?n=%zz for `? n: int` answered 400 interpreted and 200 {"n":null} compiled - the route body
// ran on an unparsable typed query value (C07) and the two engines disagreed (C02).

import (
	"net/http"
	"net/http/httptest"
	"testing"

	"github.com/glyphlang/glyph/pkg/ast"
	"github.com/glyphlang/glyph/pkg/compiler"
	"github.com/glyphlang/glyph/pkg/server"
)

func TestGovcReplayC02MalformedQuery(t *testing.T) {
	src := "@ GET /q {\n  ? n: int\n  ? s: str = \"d\"\n  > {n: n, s: s}\n}\n"
	module, err := parseSource(src)
	if err != nil {
		t.Fatal(err)
	}
	var route *ast.Route
	for _, it := range module.Items {
		if r, ok := it.(*ast.Route); ok {
			route = r
		}
	}
	for _, target := range []string{"/q?n=1", "/q?n=%zz", "/q?n=1&x=%zz", "/q?n=1;s=2", "/q?n=1&s=a+b"} {
		run := func(h server.RouteHandler) (int, string) {
			rec := httptest.NewRecorder()
			ctx := &server.Context{ResponseWriter: rec, Request: httptest.NewRequest(http.MethodGet, target, nil), PathParams: map[string]string{}}
			_ = h(ctx)
			return rec.Code, rec.Body.String()
		}
		interp := newConfiguredInterpreter()
		if err := interp.LoadModule(*module); err != nil {
			t.Fatal(err)
		}
		ic, ib := run(createRouteHandler(route, interp))
		bytecode, err := compiler.NewCompilerWithOptLevel(compiler.OptBasic).CompileRoute(route)
		if err != nil {
			t.Fatal(err)
		}
		cc, cb := run(createCompiledRouteHandler(route, bytecode, nil))
		if ic != cc || ib != cb {
			t.Errorf("%s: interpreted %d %q, compiled %d %q", target, ic, ib, cc, cb)
		}
	}
}
