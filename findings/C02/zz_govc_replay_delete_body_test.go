package main

// Replay of the failed obligation
//   glyph.createCompiledRouteHandler$1#assert "!bodyMethod(ctx.Request.Method) @ if err := validateCompiledInput(route, nil); err != nil {"#3
// against the real code: the interpreter parses a JSON request body for POST, PUT, PATCH and DELETE,
// the compiled handler for POST, PUT and PATCH only. A DELETE route that reads `input` answers with
// the body's field under --interpret and with null (or a 500) when compiled.

import (
	"net/http"
	"net/http/httptest"
	"strings"
	"testing"

	"github.com/glyphlang/glyph/pkg/ast"
	"github.com/glyphlang/glyph/pkg/compiler"
	"github.com/glyphlang/glyph/pkg/server"
)

func TestGovcReplayC02DeleteBody(t *testing.T) {
	src := "@ DELETE /items {\n  > {got: input}\n}\n"
	module, err := parseSource(src)
	if err != nil {
		t.Fatal(err)
	}
	var route *ast.Route
	for _, it := range module.Items {
		if r, ok := it.(*ast.Route); ok {
			route = r
		}
	}
	run := func(h server.RouteHandler) (int, string) {
		rec := httptest.NewRecorder()
		req := httptest.NewRequest(http.MethodDelete, "/items", strings.NewReader(`{"id": 7}`))
		req.Header.Set("Content-Type", "application/json")
		ctx := &server.Context{ResponseWriter: rec, Request: req, PathParams: map[string]string{}}
		_ = h(ctx)
		return rec.Code, rec.Body.String()
	}
	interp := newConfiguredInterpreter()
	if err := interp.LoadModule(*module); err != nil {
		t.Fatal(err)
	}
	ic, ib := run(createRouteHandler(route, interp))
	bytecode, err := compiler.NewCompilerWithOptLevel(compiler.OptBasic).CompileRoute(route)
	if err != nil {
		t.Fatal(err)
	}
	cc, cb := run(createCompiledRouteHandler(route, bytecode, nil))
	if ic != cc || ib != cb {
		t.Errorf("REPRODUCED: interpreted %d %q, compiled %d %q", ic, ib, cc, cb)
	}
}
