package interpreter

// Replay of the failed obligation
//   (*interpreter.Interpreter).evaluateLt#post "(err == nil) == (cmpKind(kindI(left), kindI(right)) != -1)"
// (the oracle shared with the VM orders strings lexicographically, as (*vm.VM).execLt does and
// pkg/vm/additional_test.go TestStringComparisons pins): the interpreter answered with an error,
// so `"apple" < "banana"` was true on the VM and a 500 under --interpret.

import "testing"

func TestGovcReplayC02StringOrdering(t *testing.T) {
	i := NewInterpreter()
	type cmp func(l, r interface{}) (interface{}, error)
	for name, c := range map[string]struct {
		f    cmp
		want bool
	}{
		"lt": {i.evaluateLt, true}, "le": {i.evaluateLe, true}, "gt": {i.evaluateGt, false}, "ge": {i.evaluateGe, false},
	} {
		got, err := c.f("apple", "banana")
		if err != nil {
			t.Errorf("REPRODUCED: %s(\"apple\", \"banana\") is an error in the interpreter (%v); the VM answers %v", name, err, c.want)
			continue
		}
		if got != c.want {
			t.Errorf("REPRODUCED: %s(\"apple\", \"banana\") = %v, the VM answers %v", name, got, c.want)
		}
	}
}
