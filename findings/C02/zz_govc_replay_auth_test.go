package main

// Replay of the failed obligation
//   glyph.createCompiledRouteHandler$1#pre@call "(*vm.VM).Execute: has(arg0.locals, "query") && ... && (route.Auth != nil ==> has(arg0.locals, "auth"))"
//   (first failing as #inv-entry "loop 5: ... (route.Auth != nil ==> has(vmInstance.locals, "auth"))")
// against the real code: for a route that declares auth the compiler resolves the name `auth` (DefineBuiltin), but the
// compiled handler never bound it. `+ auth(jwt)  > {id: auth.user.id}` answered 200 under --interpret and 500 compiled.

import (
	"net/http"
	"net/http/httptest"
	"testing"

	"github.com/glyphlang/glyph/pkg/ast"
	"github.com/glyphlang/glyph/pkg/compiler"
	"github.com/glyphlang/glyph/pkg/server"
)

func TestGovcReplayC02AuthVariable(t *testing.T) {
	src := "@ GET /me {\n  + auth(jwt)\n  > {id: auth.user.id, name: auth.user.username}\n}\n"
	module, err := parseSource(src)
	if err != nil {
		t.Fatal(err)
	}
	var route *ast.Route
	for _, it := range module.Items {
		if r, ok := it.(*ast.Route); ok {
			route = r
		}
	}
	for _, authz := range []string{"", "Bearer demo-token-7-ann", "Bearer other"} {
		run := func(h server.RouteHandler) (int, string) {
			rec := httptest.NewRecorder()
			req := httptest.NewRequest(http.MethodGet, "/me", nil)
			if authz != "" {
				req.Header.Set("Authorization", authz)
			}
			ctx := &server.Context{ResponseWriter: rec, Request: req, PathParams: map[string]string{}}
			_ = h(ctx)
			return rec.Code, rec.Body.String()
		}
		interp := newConfiguredInterpreter()
		if err := interp.LoadModule(*module); err != nil {
			t.Fatal(err)
		}
		ic, ib := run(createRouteHandler(route, interp))
		bytecode, err := compiler.NewCompilerWithOptLevel(compiler.OptBasic).CompileRoute(route)
		if err != nil {
			t.Fatal(err)
		}
		cc, cb := run(createCompiledRouteHandler(route, bytecode, nil))
		if ic != cc || ib != cb {
			t.Errorf("Authorization %q: interpreted %d %q, compiled %d %q", authz, ic, ib, cc, cb)
		}
	}
}
