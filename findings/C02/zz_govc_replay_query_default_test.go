package main

// Replay of the failed obligation
//   glyph.setupRoutes#inv-entry "loop 2: useCompiler ==> allLit(module)"  (hence #pre@call "glyph.registerCompiledRoute: arg1 != nil ==> litDefaults(arg1)")
// against the real code: the compiled handler applies literal query-parameter defaults only (evalLiteralExpr) and leaves a
// parameter with a computed default unbound, yet setupRoutes registered compiled handlers for such routes.
// `? m: int = 1 + 2` answered {"m":3} under --interpret and 500 by default.

import (
	"net/http"
	"net/http/httptest"
	"strings"
	"testing"
)

func TestGovcReplayC02ComputedQueryDefault(t *testing.T) {
	src := "@ GET /q {\n  ? m: int = 1 + 2\n  > {m: m}\n}\n"
	module, err := parseSource(src)
	if err != nil {
		t.Fatal(err)
	}
	var answers []string
	for _, forceInterpreter := range []bool{true, false} {
		_, _, _, router, err := setupRoutes(module, "replay.glyph", forceInterpreter)
		if err != nil {
			t.Fatal(err)
		}
		rec := httptest.NewRecorder()
		createHandler(router)(rec, httptest.NewRequest(http.MethodGet, "/q", nil))
		answers = append(answers, strings.TrimSpace(rec.Body.String()))
		if rec.Code != 200 {
			t.Errorf("forceInterpreter=%v: status %d %s", forceInterpreter, rec.Code, rec.Body.String())
		}
	}
	if answers[0] != answers[1] {
		t.Errorf("--interpret answers %s, default mode answers %s", answers[0], answers[1])
	}
}
