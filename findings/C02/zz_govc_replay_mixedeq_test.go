package vm_test

// Replay of the recorded finding
//   (*vm.VM).valuesEqual#post "isNum(kindV(a)) && isNum(kindV(b)) && kindV(a) != kindV(b) ==> result == feq(toFV(a), toFV(b))"
// The route `> {eq: 1 == 1.0}` answers {"eq": false} when compiled (the default) and {"eq": true}
// under --interpret: the VM compares an int and a float as different kinds, the interpreter promotes.
// Both behaviours are pinned by repository tests (pkg/vm/additional_test.go TestValuesEqual "int_vs_float",
// pkg/interpreter/extra_coverage_test.go TestValuesEqual), so the difference is recorded, not repaired.

import (
	"testing"

	"github.com/glyphlang/glyph/pkg/ast"
	"github.com/glyphlang/glyph/pkg/compiler"
	"github.com/glyphlang/glyph/pkg/interpreter"
	"github.com/glyphlang/glyph/pkg/vm"
)

func TestGovcReplayC02MixedEquality(t *testing.T) {
	expr := ast.BinaryOpExpr{Op: ast.Eq, Left: ast.LiteralExpr{Value: ast.IntLiteral{Value: 1}}, Right: ast.LiteralExpr{Value: ast.FloatLiteral{Value: 1.0}}}
	route := &ast.Route{Path: "/eq", Method: ast.Get, Body: []ast.Statement{ast.ReturnStatement{Value: expr}}}

	iv, err := interpreter.NewInterpreter().EvaluateExpression(expr, interpreter.NewEnvironment())
	if err != nil {
		t.Fatalf("interpreter: %v", err)
	}
	bc, err := compiler.NewCompiler().CompileRoute(route)
	if err != nil {
		t.Fatalf("compile: %v", err)
	}
	vv, err := vm.NewVM().Execute(bc)
	if err != nil {
		t.Fatalf("vm: %v", err)
	}
	vb, ok := vv.(vm.BoolValue)
	if !ok {
		t.Fatalf("vm result %T", vv)
	}
	if iv != vb.Val {
		t.Errorf("REPRODUCED: 1 == 1.0 is %v in the interpreter and %v on the VM", iv, vb.Val)
	}
}
