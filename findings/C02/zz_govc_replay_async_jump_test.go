package main

// Replay of the failed obligation
//   (*compiler.Compiler).adjustJumpTargets#inv-step "loop 1: ... i < len(c.code) ==> topLevel(old(row(c.code)), old(off(c.code)), i) ..."
//   (and #pre@call (binary.littleEndian).PutUint32 "i >= 1 && topLevel(..., i - 1)")
// against the real code: the relocation walk stepped *into* the body of an async block and shifted the
// body-relative jump targets by the size of the constant-pool header. The body runs on a VM of its own from
// offset 0, so an `if` inside a compiled async block jumped out of the body and the block yielded null,
// while the interpreter yields the value.

import (
	"net/http"
	"net/http/httptest"
	"testing"

	"github.com/glyphlang/glyph/pkg/ast"
	"github.com/glyphlang/glyph/pkg/compiler"
	"github.com/glyphlang/glyph/pkg/server"
)

func TestGovcReplayC02AsyncJump(t *testing.T) {
	src := "@ GET /a {\n  $ f = async {\n    $ x = 5\n    if x > 3 {\n      $ z = 1\n    }\n    > x\n  }\n  $ v = await f\n  > {v: v}\n}\n"
	module, err := parseSource(src)
	if err != nil {
		t.Fatal(err)
	}
	var route *ast.Route
	for _, it := range module.Items {
		if r, ok := it.(*ast.Route); ok {
			route = r
		}
	}
	run := func(h server.RouteHandler) (int, string) {
		rec := httptest.NewRecorder()
		ctx := &server.Context{ResponseWriter: rec, Request: httptest.NewRequest(http.MethodGet, "/a", nil), PathParams: map[string]string{}}
		_ = h(ctx)
		return rec.Code, rec.Body.String()
	}
	interp := newConfiguredInterpreter()
	if err := interp.LoadModule(*module); err != nil {
		t.Fatal(err)
	}
	ic, ib := run(createRouteHandler(route, interp))
	bytecode, err := compiler.NewCompilerWithOptLevel(compiler.OptBasic).CompileRoute(route)
	if err != nil {
		t.Fatal(err)
	}
	cc, cb := run(createCompiledRouteHandler(route, bytecode, nil))
	if ic != cc || ib != cb {
		t.Fatalf("interpreted %d %q, compiled %d %q", ic, ib, cc, cb)
	}
}
