package main

// Replay of the failed obligations
//   (*interpreter.Interpreter).ExecuteRoute#pre@call "(*interpreter.Environment).Define: arg1 != "query" && arg1 != "headers" && arg1 != "input" && arg1 != "auth""
//   (*interpreter.Interpreter).executeAssign#assert "!reqBuiltin(env, stmt.Target) @ in the same scope"
// against the real code: the compiler lets a declaration shadow the request variables it pre-defines (DefineBuiltin);
// the interpreter bound them as ordinary user variables and rejected the declaration. `$ query = 5` answered
// {"q":5} compiled and 500 ("cannot redeclare variable 'query'") under --interpret.

import (
	"net/http/httptest"
	"strings"
	"testing"
)

func TestGovcReplayC02ShadowRequestVariable(t *testing.T) {
	for _, name := range []string{"query", "headers", "input"} {
		src := "@ GET /v {\n  $ " + name + " = 5\n  > {v: " + name + "}\n}\n"
		module, err := parseSource(src)
		if err != nil {
			t.Fatal(err)
		}
		var answers []string
		for _, forceInterpreter := range []bool{true, false} {
			_, _, _, router, err := setupRoutes(module, "replay.glyph", forceInterpreter)
			if err != nil {
				t.Fatal(err)
			}
			rec := httptest.NewRecorder()
			createHandler(router)(rec, httptest.NewRequest("GET", "/v", nil))
			answers = append(answers, strings.TrimSpace(rec.Body.String()))
		}
		if answers[0] != answers[1] {
			t.Errorf("$ %s = 5: --interpret answers %s, default mode answers %s", name, answers[0], answers[1])
		}
	}
}
