package formatter

// Replay of the failed obligation
//   formatter.CanonicalizeSource#pre@call "strings.ReplaceAll: arg1 == \"\\r\\n\" && arg2 == \"\\n\""#2
// against the real code: `glyph fmt` also rewrites every lone CR into LF. For the lexer a lone CR
// is white space outside strings and ordinary content inside a string literal - never a line
// break - so the rewriting changes the token sequence: a string literal holding a raw CR is cut in
// two (the formatted file no longer lexes), and `a \r+ b` becomes two lines.

import (
	"testing"

	"github.com/glyphlang/glyph/pkg/parser"
)

func govcTokenTypes(t *testing.T, src string) ([]parser.TokenType, error) {
	toks, err := parser.NewLexer(src).Tokenize()
	if err != nil {
		return nil, err
	}
	var out []parser.TokenType
	for _, tk := range toks {
		if tk.Type != parser.NEWLINE { // layout
			out = append(out, tk.Type)
		}
	}
	return out, nil
}

func TestGovcReplayC18LoneCarriageReturn(t *testing.T) {
	for _, src := range []string{
		"@ GET /x {\n  > \"a\rb\"\n}\n",
		"@ GET /x {\n  $ y = 1 \r+ 2\n  > y\n}\n",
	} {
		before, err := govcTokenTypes(t, src)
		if err != nil {
			t.Fatalf("original does not lex: %v", err)
		}
		formatted := CanonicalizeSource(src)
		after, err := govcTokenTypes(t, formatted)
		if err != nil {
			t.Errorf("REPRODUCED: %q lexes, the formatted text %q does not: %v", src, formatted, err)
			continue
		}
		if len(before) != len(after) {
			t.Errorf("REPRODUCED: token sequence changed by fmt: %q -> %q", src, formatted)
			continue
		}
		for i := range before {
			if before[i] != after[i] {
				t.Errorf("REPRODUCED: token %d changed by fmt: %q -> %q", i, src, formatted)
				break
			}
		}
		if again := CanonicalizeSource(formatted); again != formatted {
			t.Errorf("fmt is not idempotent on %q", src)
		}
	}
}
