package main

// Replay of the failed obligations
//   glyph.executeRoute#pre@call "(*interpreter.Interpreter).ExecuteRoute: arg2 != nil && arg2.Params == ctx.PathParams && queryOf(arg2.Path) == ctx.Request.URL.RawQuery"
//   (*interpreter.Interpreter).ExecuteRoute#assert "request.Params != nil ==> params == request.Params @ for key, value := range params {"
// against the real code: the interpreted handler rebuilt "path?query" from the *decoded* URL path and the interpreter
// re-derived the path parameters from that string, cutting it at the first "?". GET /users/a%3Fb bound id = "a"
// (compiled: "a?b", the segment the router matched), and GET /files/x%3Fy/z - matched by /files/:a/:b - failed with
// "path mismatch" (500) although the route had been selected.

import (
	"net/http"
	"net/http/httptest"
	"strings"
	"testing"

	"github.com/glyphlang/glyph/pkg/ast"
	"github.com/glyphlang/glyph/pkg/compiler"
	"github.com/glyphlang/glyph/pkg/server"
)

func TestGovcReplayC05EncodedQuestionMark(t *testing.T) {
	src := "@ GET /users/:id {\n  > {id: id}\n}\n@ GET /files/:a/:b {\n  ? q: str\n  > {a: a, b: b, q: q}\n}\n"
	module, err := parseSource(src)
	if err != nil {
		t.Fatal(err)
	}
	want := map[string]string{
		"/users/a%3Fb":       `{"id":"a?b"}`,
		"/files/x%3Fy/z":     `{"a":"x?y","b":"z","q":null}`,
		"/files/x%3Fy/z?q=1": `{"a":"x?y","b":"z","q":"1"}`,
		"/files/x/z?q=1":     `{"a":"x","b":"z","q":"1"}`,
	}
	for target, body := range want {
		for _, mode := range []string{"interpreted", "compiled"} {
			router := server.NewRouter()
			interp := newConfiguredInterpreter()
			if err := interp.LoadModule(*module); err != nil {
				t.Fatal(err)
			}
			for _, it := range module.Items {
				r, ok := it.(*ast.Route)
				if !ok {
					continue
				}
				var h server.RouteHandler
				if mode == "interpreted" {
					h = createRouteHandler(r, interp)
				} else {
					bc, err := compiler.NewCompilerWithOptLevel(compiler.OptBasic).CompileRoute(r)
					if err != nil {
						t.Fatal(err)
					}
					h = createCompiledRouteHandler(r, bc, nil)
				}
				if err := router.RegisterRoute(&server.Route{Method: server.GET, Path: r.Path, Handler: h}); err != nil {
					t.Fatal(err)
				}
			}
			rec := httptest.NewRecorder()
			createHandler(router)(rec, httptest.NewRequest(http.MethodGet, target, nil))
			if got := strings.TrimSpace(rec.Body.String()); rec.Code != 200 || got != body {
				t.Errorf("%s %s: %d %s, want 200 %s", mode, target, rec.Code, got, body)
			}
		}
	}
}
