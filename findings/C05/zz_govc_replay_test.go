package main

// Replay of the failed obligation
//   glyph.setupRoutes#pre@call:"glyph.registerCompiledRoute: bcsrc(arg2) == arg1"
// against the real code: the same pattern under two methods; in compiled mode each method must run its own body.

import (
	"net/http"
	"net/http/httptest"
	"strings"
	"testing"

	"github.com/glyphlang/glyph/pkg/parser"
)

func TestGovcReplayC05SamePathTwoMethods(t *testing.T) {
	src := "@ GET /items {\n  > {which: \"get\"}\n}\n\n@ POST /items {\n  > {which: \"post\"}\n}\n"
	lexer := parser.NewLexer(src)
	tokens, err := lexer.Tokenize()
	if err != nil {
		t.Fatal(err)
	}
	module, err := parser.NewParser(tokens).Parse()
	if err != nil {
		t.Fatal(err)
	}
	useCompiler, _, _, router, err := setupRoutes(module, "test.glyph")
	if err != nil {
		t.Fatal(err)
	}
	if !useCompiler {
		t.Skip("module fell back to the interpreter")
	}
	h := createHandler(router)
	rec := httptest.NewRecorder()
	h(rec, httptest.NewRequest(http.MethodGet, "/items", nil))
	if !strings.Contains(rec.Body.String(), "get") {
		t.Fatalf("REPRODUCED: GET /items ran another declaration's body: %d %s", rec.Code, rec.Body.String())
	}
}
