#!/usr/bin/env python3
"""Re-runs the registered checks against the kept mutants under /verif/seeded (patch.diff), on a scratch
worktree of /repo (SEED_REPO) at /repo's HEAD, and refreshes check_results in each meta.json.
usage: seedrerun.py [ID ...]"""
import sys, os, subprocess, json, glob, re
REPO = os.environ.get('SEED_REPO', '/tmp/wt/seedrepo')
ids = sys.argv[1:]
def sh(cmd, cwd='/verif'):
    r = subprocess.run(cmd, shell=True, cwd=cwd, capture_output=True, text=True)
    return r.returncode, r.stdout + r.stderr
head = sh('git -C /repo rev-parse HEAD')[1].strip()
sh(f'git -C {REPO} checkout -- . && git -C {REPO} checkout -q --detach {head}')
assert sh(f'git -C {REPO} status --porcelain --untracked-files=no')[1].strip() == '', 'scratch repo dirty'
EXTRA = {'C01': ['C02', 'C04', 'C09'], 'C02': ['C07', 'C04'], 'C03': ['C15'], 'C04': ['C01'], 'C08': ['C12', 'C04'], 'C10': ['C04'], 'C15': ['C03']}
for d in sorted(glob.glob('/verif/seeded/C*/m*')):
    meta = json.load(open(d + '/meta.json'))
    pid, n = meta['property'], meta['mutant']
    if ids and pid not in ids:
        continue
    checks = [pid] + EXTRA.get(pid, [])
    rc, o = sh(f'git -C {REPO} apply {d}/patch.diff')
    res = {}
    if rc != 0:
        res['apply_error'] = 'the patch no longer applies to the current tree (the code it changes was rewritten by a later fix): ' + o.strip()[-300:]
    else:
        for cid in checks:
            rc, o = sh(f'bin/govc check {cid} --no-evidence --repo {REPO}')
            viol = [l for l in o.splitlines() if l.startswith('VIOLATION')]
            res[cid] = {'exit': rc, 'violations': [re.sub(r' replay=\S+', '', v)[:300] for v in viol][:6], 'summary': o.strip().splitlines()[-1][:200] if o.strip() else ''}
            if rc == 1:
                break
        sh(f'git -C {REPO} checkout -- .')
    meta['check_results'] = res
    meta['checked_at_repo_commit'] = head[:7]
    meta['what_i_ran'] = re.sub(r'; tools/seedrun.py.*$', '', meta.get('what_i_ran', '')) + f'; tools/seedrerun.py: git -C <scratch worktree of /repo at {head[:7]}> apply patch.diff; bin/govc check <ID...> --repo <worktree>; git checkout -- .'
    json.dump(meta, open(d + '/meta.json', 'w'), indent=1)
    caught = any(isinstance(v, dict) and v.get('exit') == 1 for v in res.values())
    print(pid, n, 'CAUGHT' if caught else ('N/A' if 'apply_error' in res else 'MISSED'), flush=True)
