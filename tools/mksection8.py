#!/usr/bin/env python3
"""Regenerates DESIGN.md section 8 from /verif/seeded/*/m*/meta.json."""
import json, glob, re
rows = []
for d in sorted(glob.glob('/verif/seeded/C*/m*')):
    m = json.load(open(d + '/meta.json'))
    cr = m.get('check_results', {})
    first = (m.get('description', '').splitlines() or [''])[0]
    first = re.sub(r'^#\s*m\d+\s*[-—–]+\s*', '', first).strip()
    caught = [(k, v['violations'][0]) for k, v in cr.items() if isinstance(v, dict) and v.get('exit') == 1 and v.get('violations')]
    if 'apply_error' in cr:
        st, by = 'n/a', 'patch no longer applies (the code it changes was rewritten by a later fix; the must-fail corpus keeps the scenario)'
        if m.get('ported'):
            by += f"; ported by hand to the current code as {m['ported']['selftest_entry']}: {m['ported']['result']} by `{m['ported']['obligation'][:150]}`".replace('|', '\\|')
    elif caught:
        k, v = caught[0]
        mo = re.search(r'obligation="(.*)"', v)
        ob = mo.group(1) if mo else v
        ob = ob.replace('\\"', '"')
        ob = re.sub(r'\s+', ' ', ob)[:150]
        st, by = 'caught', f'{k}: `{ob}`'.replace('|', '\\|')
    else:
        st, by = '**missed**', ''
    rows.append((m['property'], m['mutant'], first[:120].replace('|', '\\|'), st, by))
n = len(rows)
c = sum(1 for r in rows if r[3] == 'caught')
na = sum(1 for r in rows if r[3] == 'n/a')
ms = n - c - na
out = []
out.append('## 8. Independent mutants (sub-agents given only the property text; /verif/seeded/<id>/mN)\n')
out.append(f'{n} mutants written by sub-agents that saw the property text and a scratch worktree only (the contract files were\ndeleted from it), each confirmed here: builds, the whole existing suite passes with it (timing-flaky packages re-run\nonce), its demonstration fails with it and passes without. Current state of the checks against them (each applied to a\nscratch worktree of /repo at the commit named in its meta.json): **{c} caught, {ms} missed, {na} no longer applicable**.\nMost of the catches of the second wave came only after the contracts were strengthened where a mutant had been missed\n(lock discipline, provider strictness, freshness of VMs/compilers/arrays, encode-before-status, type-table frame, reload\ncounting, watcher hashing, combinators, built-in oracle, body-binding rule, defaults, byte accounting).\nA third wave (seven mutants, aimed at the type-conformance code and at the bytecode layout side of the compiler after those\nhad been put under contract) was caught entirely; an eighth (operand table rewritten as a switch that lost OpBuildObject)\nfailed a package of the existing suite at confirmation and was not kept - its scenario is the must-fail entry\ncompiler-hasoperand-missing-buildobject. Three of the seven are caught because a contract no longer fits the changed code\n(a loop ordinal or an assertat anchor moved: reported as an engine error, which fails the check like a violation), not by a\nsemantic obligation - the price of keying contracts by loop ordinal and statement text.\nA fourth wave of four, aimed at the glue between the router and the two engines: three caught at once; the fourth (a HEAD\nrequest that matches nothing is re-matched as GET and runs the GET body) was missed until the dispatcher got the obligation\nthat Router.Match is asked about the method and path of the request itself.\n')
out.append('| Mutant | What it does | Result | First failing obligation |')
out.append('|--------|--------------|--------|--------------------------|')
for r in rows:
    out.append(f'| {r[0]} {r[1]} | {r[2]} | {r[3]} | {r[4]} |')
out.append('')
out.append('Missed, and why: C01 m1/m3, C02 m1 and C03 m2/m4 change statement-level behaviour of the VM, the interpreter and the\noptimizer (iterator tables, match scoping, optimizer on parser output, switch bodies, dead-code elimination) - outside the\noperator / built-in / kill-condition layer these properties are claimed at; C06 m4 is in the parser (route modifiers are\nnot under contract). "No longer\napplicable": the patch targets code that a later fix rewrote; each of those scenarios is kept as an entry of the\nmust-fail corpus against the current code (compiled-content-type-exact-match-only, vm-length-counts-bytes,\nvm-substring-bounds-in-bytes, canary-success-status-before-encoding, canary-compiled-table-keyed-by-path,\nparser-depth-reset-per-statement, canary-static-routes-mounted-after-setup, set-update-files-under-other-key).\n')
sec = '\n'.join(out)
p = '/verif/DESIGN.md'
s = open(p).read()
i = s.index('## 8. Independent mutants')
j = s.index('## 9. Trusted base')
s = s[:i] + sec + '\n' + s[j:]
open(p, 'w').write(s)
print(n, c, ms, na)
