#!/usr/bin/env python3
"""Confirms sub-agent mutants delivered as <worktree>/_mutants/mN/{patch.diff,demo_test.go,notes.md} in their own
scratch worktree and keeps the confirmed ones under /verif/seeded/<ID>/m<K>: the change builds, the whole existing
suite passes with it (failing packages re-run once: timing-flaky tests), the demonstration passes on the clean tree
and fails with the change. usage: seedconfirm2.py <ID> <worktree> <first K>"""
import sys, os, subprocess, glob, re, json, shutil
ID, wt, K = sys.argv[1], sys.argv[2], int(sys.argv[3])
env = dict(os.environ, GOFLAGS='-mod=mod', GOPROXY='off', GOSUMDB='off', GOTOOLCHAIN='local', PATH='/opt/veriftools/go1.26.8/bin:' + os.environ['PATH'])
def sh(cmd, cwd=wt, timeout=2400):
    try:
        r = subprocess.run(cmd, shell=True, cwd=cwd, env=env, capture_output=True, text=True, timeout=timeout)
        return r.returncode, (r.stdout + r.stderr)[-4000:]
    except subprocess.TimeoutExpired:
        return 124, 'timeout'
for d in sorted(glob.glob(os.path.join(wt, '_mutants', 'm*'))):
    n = os.path.basename(d)
    patch, demo, notes = (os.path.join(d, f) for f in ('patch.diff', 'demo_test.go', 'notes.md'))
    if not (os.path.exists(patch) and os.path.exists(demo)):
        print(n, 'incomplete'); continue
    first = open(demo).readline()
    m = re.search(r'place in:\s*(\S+)', first)
    pkgdir = m.group(1).rstrip('/') if m else None
    if not pkgdir or not os.path.isdir(os.path.join(wt, pkgdir)):
        print(n, 'no demo dir', first); continue
    tests = re.findall(r'^func (Test\w+)\(', open(demo).read(), re.M)
    run = '^(' + '|'.join(tests) + ')$'
    dst = os.path.join(wt, pkgdir, 'zz_seed_demo_test.go')
    files = re.findall(r'^\+\+\+ b/(\S+)', open(patch).read(), re.M)
    rec = {}
    shutil.copy(demo, dst)
    rc, o = sh(f"go test -vet=off -count=1 -timeout 300s -run '{run}' ./{pkgdir}")
    rec['demo_passes_on_clean_tree'] = rc == 0
    os.remove(dst)
    rc, o = sh(f'git apply {patch}')
    if rc != 0:
        print(n, 'patch does not apply', o[-300:]); continue
    rc, o = sh('go build ./...')
    rec['builds'] = rc == 0
    rc, o = sh('go test -vet=off -count=1 -timeout 25m ./... 2>&1 | grep -v "^ok\\|no test files"')
    failing = re.findall(r'^FAIL[ \t]+(\S+)', o, re.M)
    if failing:
        again = []
        for p in sorted(set(failing)):
            rc2, o2 = sh(f'go test -vet=off -count=1 -timeout 25m {p}')
            if rc2 != 0:
                again.append(p)
        failing = again
    rec['existing_tests_pass_with_change'] = not failing
    rec['failing_packages'] = failing
    shutil.copy(demo, dst)
    rc, o = sh(f"go test -vet=off -count=1 -timeout 300s -run '{run}' ./{pkgdir}")
    rec['demo_fails_with_change'] = rc != 0
    os.remove(dst)
    sh(f'git apply -R {patch}')
    ok = rec['demo_passes_on_clean_tree'] and rec['builds'] and rec['existing_tests_pass_with_change'] and rec['demo_fails_with_change']
    print(n, 'CONFIRMED' if ok else 'REJECTED', rec, flush=True)
    if not ok:
        continue
    out = f'/verif/seeded/{ID}/m{K}'
    os.makedirs(out, exist_ok=True)
    shutil.copy(patch, out + '/patch.diff')
    shutil.copy(demo, out + '/demo_test.go')
    desc = open(notes).read() if os.path.exists(notes) else ''
    desc = re.sub(r'^# m\d+', f'# m{K}', desc, count=1)
    meta = {'property': ID, 'mutant': f'm{K}', 'source': 'independent sub-agent given only the property text', 'files': files,
            'demo_package': pkgdir, 'confirmed': {k: rec[k] for k in ('demo_passes_on_clean_tree', 'existing_tests_pass_with_change', 'demo_fails_with_change')},
            'kept': True, 'description': desc[:3000],
            'what_i_ran': 'tools/seedconfirm2.py (go build, the whole existing suite go test ./... with failing packages re-run once, demo with/without the change, in the sub-agent\'s scratch worktree)'}
    json.dump(meta, open(out + '/meta.json', 'w'), indent=1)
    K += 1
