#!/usr/bin/env python3
"""Regenerates /verif/MANIFEST.json from the claims table below (single source of truth)."""
import json, subprocess, os

ENV = "PATH=/opt/veriftools/go1.26.8/bin:$PATH GOFLAGS=-mod=mod GOPROXY=off GOSUMDB=off GOTOOLCHAIN=local"

CLAIMS = {
 "C05": dict(
  text="Deductive proof (contracts + WP over go/ssa, discharged by SMT) that Router.Match returns, among the nodes registered for exactly the request's method whose pattern matches the request's segment sequence, the one with the fewest parameter segments and the earliest declaration on ties, with every parameter bound to its segment, and an error iff nothing matches; matchRoute and splitPath are proved against their own functional contracts. For all route tables, methods and paths, no bound.",
  note="Assumes: parameter names within one pattern are distinct (type invariant, not enforced by parseRoutePattern); strings.Split/TrimSpace/HasPrefix deterministic (uninterpreted); net/http path cleaning in front of the router not modelled; dispatcher closures in cmd/glyph (404 path, compiled-route table) are not yet under contract.",
  technique="contract-based deductive verification: weakest-precondition VCs over go/ssa of the real functions, loop invariants, z3/cvc5",
  design="§5 C05"),
 "C17": dict(
  text="Deductive proof that on every control-flow path of StaticFileServer.ServeHTTP, serveDirectoryListing and ResponseHelper.SendFile the path handed to os.Open / os.ReadDir is the output of a successful EvalSymlinks and satisfies within(root, p) (p == root or p has prefix root+'/') for the server's symlink-resolved root; isSubPath is proved equal to within; the constructor is proved to store a resolved root and the option closures to leave it alone; a structural scan proves no other function of pkg/web opens or serves files.",
  note="Assumes file-system semantics (EvalSymlinks yields a symlink-free path; no TOCTOU between check and open), net/http path cleaning before ServeHTTP, http.ServeContent serving exactly the opened file; foreign StaticOption values are assumed to respect the option frame. One genuine defect (symlinked index.html served from outside the root) was found by the os.Open obligation and repaired (fix: a15c7cc).",
  technique="contract-based deductive verification: WP over go/ssa with call-site preconditions on file-system calls, ghost predicate resolved(), structural call-site confinement scan",
  design="§5 C17"),
 "C12": dict(
  text="Deductive proof that the only reflective method lookup in the interpreter (reflect.Value.MethodByName inside CallMethod) is reached with a name n such that allowedMethods[n] is true and n equals the requested name up to case (canonicalMethodName proved against that contract, including the loop over the map), that an unlisted name always yields an error, and that reflect.Value.Call is reached only when its documented panic preconditions hold (arity, every argument a valid Value assignable to its parameter type, variadic case included); structural scans prove reflective lookup/call occurs nowhere else in the package and the allow-list is an all-true map written only by package initialisation.",
  note="Assumes reflect behaves as documented (trusted contracts for ValueOf/Type/NumIn/In/IsVariadic/AssignableTo/Zero/Call). The behaviour of the allow-listed provider methods on hostile arguments is not covered. One genuine defect (null or mistyped argument panics in reflect.Call) was found by the Call preconditions and repaired (fix commit in /repo).",
  technique="contract-based deductive verification: WP over go/ssa, call-site preconditions on reflect calls, map-iteration invariant with ghost visited set, structural confinement scans",
  design="§5 C12"),
 "C20": dict(
  text="Deductive proof, for every operation history and interleaving that goes through LRUCache.mu, of the representation invariant wf (index and recency list hold the same entries; every list element is an *Entry filed under its own key; no foreign values; entry count == list length <= capacity) as a monitor invariant re-established at every Unlock of Get/Set/SetWithTags/Delete/Clear, with operation contracts: Get returns exactly the value filed under the key and moves it to the front; Set stores the value at the front, leaves other keys' entries untouched and evicts only a suffix of the recency order (LRU first); Delete/Clear remove; removeElement/evictOldest proved against sequence-shift contracts; the eviction loops carry a decreasing variant (termination) and every access to guarded fields happens with the lock held.",
  note="container/list is trusted as an abstract sequence (ghost heaps); onEvict assumed not to touch the cache; the byte-size bound (currentSize <= maxSize) is NOT proved (needs an inductive sum; the in-place update path is observed to exceed it); DeleteByTag, the cleanup ticker and HTTPCache are not under contract. One genuine defect (Set never returns for capacity 0 / oversize value) was found by the decreases obligation and repaired.",
  technique="contract-based deductive verification: monitor invariant on the mutex, ghost sequence model of container/list, loop variants, WP over go/ssa, z3/cvc5",
  design="§5 C20"),
 "C11": dict(
  text="Deductive proof of the token-bucket step relation of the real per-request closure (one critical section under the captured mutex): level after refill = min(Burst, tokens + add) when add > 0, lastRefill reset exactly then, admitted iff that level >= 1 and then decremented by exactly one, rejected requests answered 429 without calling the wrapped handler (ghost call counter), every other client's entry untouched, entries distinct and never above Burst; plus a ghost lemma (pure SMT over that step relation, potential min(B, tokens + r*(t-lastRefill))) giving at most B + r*T admissions per client in any interval of length T; getClientIP proved to ignore forwarding headers unless trustProxy; the declared-limit conversion is checked per window unit against 'bucket of N refilled at N per window'.",
  note="Float refill treated as exact real floor in the lemma (uninterpreted in the code-level contract); mathematical integers (mathint) in the closure and the conversion; invariant over the captured map assumed at entry / re-proved at Unlock; cleanup goroutine not under contract; 'a client within the rate is never rejected' not decided. Five recorded findings: N/sec, N/hour, N/day are converted to buckets of 60N / ceil(N/60) / ceil(N/1440) and rounded-up per-minute rates (pinned by an existing test, hence recorded rather than repaired).",
  technique="contract-based deductive verification: at-unlock assertions + ghost call counter over go/ssa WP, ghost SMT lemma for the history bound, call-site preconditions for the conversion",
  design="§5 C11"),
 "C06": dict(
  text="Deductive proof, with a ghost counter of handler invocations, that the wrapped handler is invoked by the API-key closure only when the trimmed X-API-Key / Bearer value is a non-empty member of the configured key set, by the bearer-token closure only when the Authorization value (Bearer prefix stripped) is a configured token, and never by the deny-all closure; 401 is sent only for a bad credential and 429 only during a lockout (so a valid credential passes unless locked out); authMiddleware returns a middleware for every declared auth and builds credential-checking middlewares only over a non-empty set without blank entries (otherwise deny-all); routeMiddlewares puts it in the chain; the dispatcher loop is proved to invoke exactly mw[0](mw[1](...(Handler))) and nothing on a 404.",
  note="Assumes the dyn() contracts for RouteHandler/Middleware values (invocation counted by ghost ncalls, application = wrap), http.Header.Get deterministic, router type invariant; registerRoute/registerCompiledRoute (pass routeMiddlewares(route) through) not under contract; the code compares bearer tokens with the secret (no JWT signature check). One genuine defect found and repaired: recordAuthFailure dereferenced a tracker that another critical section may have deleted (nil obligation).",
  technique="contract-based deductive verification: ghost call counter, dyn() contracts for func values, recursive spec function for the middleware chain, WP over go/ssa",
  design="§5 C06"),
 "C16": dict(
  text="Deductive proof of monitor invariants and lock discipline for rooms, the room table, a connection's own room set and the hub's connection table: a room never exceeds the limit in force (Add re-establishes len <= max at Unlock), every load/store/map operation on a guarded field happens with the right lock held (write lock for writes), Room.Broadcast sends only on the send channel of a current member other than the excluded connection, Join/Leave keep the connection's own view in agreement with the room (membership recorded only after the room accepted), the hub's register critical section adds at most one connection and only below MaxConnectionsPerHub, SetMaxConnections is confined to unpublished rooms.",
  note="Interference modelled only at Lock (guarded state havocked + invariant assumed); channels carry no heap effect; callees lock-balanced; handlers called from Hub.Run assumed to touch only the monitor-protected tables; RemoveConnectionFromAllRooms is a trusted summary. Not decided: delivery/ordering through WritePump, close(send)-before-room-removal (send on closed channel), Connection.Close self-deadlock from hub handlers, shutdown. One genuine defect found and repaired: JoinRoom recorded membership although the room was full.",
  technique="contract-based deductive verification: monitor invariants on mutexes, guarded-by obligations, send preconditions, at-unlock assertions over go/ssa WP",
  design="§5 C16"),
 "C15": dict(
  text="Deductive proof for the JIT cache: after InvalidateCache(name) / ClearCache / RecordDeoptimization no compilation unit and no valid type specialization for the route remains (so the next request recompiles the current definition); a cache miss compiles exactly the route passed in and recompilation stores exactly the bytecode it returns (ghost bcsrc); GetSpecialization returns only valid specializations; the tier -> optimisation level table and the tier successor table are as declared; the per-route specialization limit is a monitor invariant of SpecializationCache.mutex; every read/write of units, of a unit's Bytecode/Tier/CompiledAt and of a specialization's IsValid happens with the owning mutex held (guarded-by).",
  note="CompileRoute of pkg/compiler trusted to compile its argument; equality of behaviour across optimisation levels is C03, not re-proved here; profiler/trigger heuristics are contract-less. Two genuine defects found and repaired: invalidation left specializations valid (stale code served), and unit fields were read without unitsMux while recompileRoute wrote them (race confirmed with go test -race).",
  technique="contract-based deductive verification: monitor invariants incl. fields of other objects guarded by a lock, ghost provenance of bytecode, WP over go/ssa",
  design="§5 C15"),
 "C19": dict(
  text="Deductive proof that 'a server is listening' is an invariant of the dev reload manager: with the ghost predicate running(srv), hotReloadManager.startServer is proved to re-establish m.server != nil ==> running(m.server) at every exit, to leave the previous server untouched and running when the edited source fails to read/parse/set up, and to hold a freshly launched server on success - hence after any finite sequence of edits (induction over reloads, each reload being one call); structural scans confine server launch and shutdown to the audited functions. For the library reload manager: Reload is called only with bytecode from a successful compilation of the change set, state is restored only after a successful reload, and every handled change set is counted (monitor on ReloadManager.mu).",
  note="prepareDevServer (no listening) and launchDevServer are trusted summaries over running(); net/http Shutdown/Close trusted; fsnotify delivery, debounce and port re-binding timing not modelled; compiler/server interfaces of pkg/hotreload trusted through ghost predicates. One genuine defect found and repaired: startServer shut the running server down before reading the new source, so any failing edit left nothing listening.",
  technique="contract-based deductive verification: monitor invariant over a ghost predicate, trusted effect summaries, call-site preconditions with ghost counters, structural call confinement",
  design="§5 C19"),
 "C14": dict(
  text="Deductive proof of the commit/rollback protocol of SQLiteDB/PostgresDB/MySQLDB.Transaction over the ghost state machine txstate(tx): on every exit the transaction is no longer open; it is committed exactly when the callback returned nil and Commit succeeded, rolled back when the callback returned an error, and - with a panic modelled as an alternative outcome of the callback call that unwinds through the deferred closure with recover() != nil - rolled back before the panic propagates (the closure itself is proved to roll back and re-panic). ORM statements are proved to run on the transaction carried by the context whenever there is one (helpers + structural confinement of direct Database calls). BulkInsert is proved to issue at most one statement, and exactly one on success.",
  note="database/sql Commit/Rollback and the engines' atomicity are assumed (trusted contracts); the callback is assumed not to finish the transaction itself; cancelled contexts not modelled; ORM.Transaction exists for PostgresDB only. One genuine defect found and repaired: ORM calls inside ORM.Transaction ran outside the transaction (nothing read the context key) and survived its rollback.",
  technique="contract-based deductive verification: ghost state machine for *sql.Tx, panic/recover unwinding in the VC generator, call-site preconditions, ghost statement counter",
  design="§5 C14"),
 "C13": dict(
  text="Deductive proof of SQL text provenance: with the uninterpreted predicate safe(s) (fixed template text, validated identifiers, allow-listed words, digits), every statement string handed to the database by QueryBuilder.Build/Get, ORM.Create/Update/Delete/Count and the three drivers' BulkInsert/CreateTable/DropTable/TableExists/GetLastInsertID is proved safe on every path, for all tables, columns, operators, directions, join types, column types and values; values only ever travel in the argument vector; the identifier sanitizers are proved to return safe text only for names matching the identifier pattern; operators/directions/join types reach the text only after comparison with literal allow-lists; column types additionally contain no comma outside parentheses. Structural scans pin the six regex literals and confine all Exec/Query/QueryRow/Prepare call sites to the functions under contract.",
  note="safe() is a provenance abstraction (literals of the functions under contract, closure under concatenation/Join/Sprintf with a literal format); the link from the regex literals to the character classes is an axiom tied to the literal by a structural check; ORM.Query takes raw SQL by design; real-engine quoting/unicode behaviour not modelled. One genuine defect found and repaired: a column type could smuggle a second column definition through a top-level comma.",
  technique="contract-based deductive verification: ghost provenance predicate with literal facts, model of fmt.Sprintf/Fprintf formats, call-site preconditions on every statement execution, structural regex/call-site pinning",
  design="§5 C13"),
 "C10": dict(
  text="Deductive proof, for bytecode given as an arbitrary byte slice (symbolic length and content), that the loader (Execute, parseBytecode, readConstant), the instruction fetch/dispatch (step, executeInstruction, readOperand), the stack primitives and every operand-carrying instruction handler, and the disassembler (Decompile, readConstant, readInstruction) perform no out-of-bounds index/slice, nil dereference or failed type assertion; offsets only move forward and stay inside the input (decreasing variants: loader and disassembler walks terminate; the run loop terminates under the step limit); every allocation sized by an operand is bounded by the stack depth or the code length; the program counter stays well-formed across all 44 instructions and a successful non-jump instruction advances it by exactly its operand width; the operand tables of VM, compiler and decompiler equal one spec table.",
  note="Not covered: the lexer/parser half of the property (no claims for source text), constant encode/decode round trip, compiler jump fix-up, reconstructSource; cost of a single instruction is not bounded. Value.Type()/WebSocketHandler declared inert; builtins receive values only. Three genuine defects found and repaired: operand-sized allocation before the stack check (BuildArray/Call), OpAsync missing from the decompiler's operand table, async blocks running without the step limit.",
  technique="contract-based deductive verification: strict safety obligations + allocation bounds + loop variants over go/ssa WP with symbolic byte slices; spec table shared by three packages",
  design="§5 C10"),
}

def main():
    props=[json.loads(l) for l in open('/verif/properties.jsonl')]
    na_reasons=json.load(open('/verif/tools/not_applicable.json'))
    hooks=subprocess.run("git -C /repo log --format=%H --grep='^verif:' ", shell=True, capture_output=True, text=True).stdout.split()
    checks=[]
    for pid,c in sorted(CLAIMS.items()):
        checks.append({
          "property_id": pid,
          "quick_cmd": f"/verif/bin/govc check {pid} --tier quick",
          "thorough_cmd": f"/verif/bin/govc check {pid} --tier thorough",
          "evidence_file": f"/verif/evidence/{pid}.json",
          "replay_cmd_template": "cat {path}",
          "engine": "govc",
          "level_claimed": {"category":"proof","text":c["text"],"design_ref":c["design"]},
          "level_note": c["note"],
          "technique": c["technique"],
        })
    m={"version":1,
       "setup_cmd": f"cd /verif/govc && {ENV} go build -o /verif/bin/govc . && cd /repo && {ENV} go build -tags verif ./... ",
       "hooks":{"guard":"verif",
                "enable":"go build -tags verif: per-package comment-only contracts_verif.go files (//@ contract lines), read by govc through go/packages with -tags=verif",
                "baseline_off_cmd": f"cd /repo && {ENV} go test -vet=off -count=1 ./...",
                "source_commits": hooks, "add_only": True},
       "engines":[{"name":"govc","path":"/verif/govc","serves_properties":sorted(CLAIMS),
                   "kind_free_text":"contract-based deductive verifier for Go written for this task: weakest-precondition VC generation over go/ssa of the real code (passive form, loop cut points, Burstall heap, monitors), contracts as //@ comments in /repo behind the verif build tag, obligations discharged by z3 5.1 / z3 4.8 / cvc5"}],
       "checks":checks,
       "notes":"Every check rebuilds its VCs from /repo's working tree on each run (go/packages + go/ssa, -tags verif). known findings: /verif/known_findings.txt. must-fail corpus: /verif/selftest/*.json (govc selftest).",
       "not_applicable":[{"property_id":p["id"],"reason":na_reasons.get(p["id"],"machinery not completed yet (contracts for this property are not green)")} for p in props if p["id"] not in CLAIMS]}
    json.dump(m,open('/verif/MANIFEST.json','w'),indent=1)
    print("claimed:",sorted(CLAIMS))
main()
