#!/usr/bin/env python3
"""Confirms sub-agent mutants in their scratch worktree: builds, existing tests of touched packages pass,
demo fails with the change and passes without. usage: seedconfirm.py <ID> <worktree>"""
import sys, os, subprocess, glob, re, json, shutil
ID, wt = sys.argv[1], sys.argv[2]
env = dict(os.environ, GOFLAGS='-mod=mod', GOPROXY='off', GOSUMDB='off', GOTOOLCHAIN='local', PATH='/opt/veriftools/go1.26.8/bin:'+os.environ['PATH'])
def sh(cmd, cwd=wt, timeout=1500):
    try:
        r = subprocess.run(cmd, shell=True, cwd=cwd, env=env, capture_output=True, text=True, timeout=timeout)
        return r.returncode, (r.stdout + r.stderr)[-3000:]
    except subprocess.TimeoutExpired:
        return 124, 'timeout'
def pkgdir_of(demo):
    src = open(demo).read()
    m = re.search(r'^package\s+(\w+)', src, re.M)
    name = m.group(1)
    md = demo.replace('_demo_test.go', '.md')
    hint = open(md).read() if os.path.exists(md) else ''
    cands = []
    for d, _, fs in os.walk(wt):
        if '/mutants' in d or '/.git' in d: continue
        for f in fs:
            if f.endswith('.go') and not f.endswith('_test.go'):
                try:
                    head = open(os.path.join(d, f)).read(4000)
                except Exception: continue
                mm = re.search(r'^package\s+(\w+)', head, re.M)
                if mm and mm.group(1) == name.replace('_test',''):
                    cands.append(os.path.relpath(d, wt)); break
    cands = sorted(set(cands))
    for c in cands:
        if c in hint: return c
    return cands[0] if cands else None
out = []
sh('git checkout -- . && git clean -fdq -e mutants')
for diff in sorted(glob.glob(os.path.join(wt, 'mutants', 'm*.diff'))):
    n = os.path.basename(diff)[:-5]
    demo = os.path.join(wt, 'mutants', n + '_demo_test.go')
    rec = {'mutant': n}
    if not os.path.exists(demo):
        rec['error'] = 'no demo'; out.append(rec); continue
    pd = pkgdir_of(demo)
    rec['demo_pkg'] = pd
    files = re.findall(r'^\+\+\+ b/(\S+)', open(diff).read(), re.M)
    rec['files'] = files
    pkgs = sorted(set('./' + os.path.dirname(f) + '/...' for f in files))
    target = os.path.join(wt, pd, 'zz_demo_test.go')
    # clean: demo must pass
    shutil.copy(demo, target)
    rc, o = sh(f'go test -vet=off -count=1 -timeout 300s -run . ./{pd}/ 2>&1 | tail -30')
    rc_clean, _ = sh(f'go test -vet=off -count=1 -timeout 300s ./{pd}/')
    rec['demo_passes_clean'] = (rc_clean == 0)
    os.remove(target)
    rc, o = sh(f'git apply {diff}')
    if rc != 0:
        rec['error'] = 'diff does not apply: ' + o; out.append(rec); continue
    rc, o = sh('go build ./...')
    rec['builds'] = (rc == 0)
    # the whole existing suite (the scratch mutants/ directory is not a package of the repository);
    # packages that fail are re-run once on their own (timing-sensitive tests under load)
    rc, o = sh("go test -vet=off -count=1 -timeout 1500s $(go list ./... | grep -v /mutants) 2>&1 | grep -v '^ok\\|no test files'", timeout=3000)
    failed = sorted(set(re.findall(r'^(?:FAIL|---)\s+(github.com/glyphlang/glyph/\S+)', o, re.M)) | set(re.findall(r'^FAIL\s+(github.com/glyphlang/glyph\S*)', o, re.M)))
    rec['full_suite_first_run_failed_pkgs'] = failed
    ok_all = True
    if 'FAIL' in o or 'panic' in o:
        ok_all = bool(failed)
        for fp in failed:
            rc2, o2 = sh(f'go test -vet=off -count=1 -timeout 900s {fp}')
            if rc2 != 0:
                ok_all = False
                rec['existing_tests_out'] = o2[-800:]
    rec['existing_tests_pass'] = ok_all
    rec['existing_tests_scope'] = 'go test -vet=off -count=1 ./... (whole suite; failing packages re-run once)'
    shutil.copy(demo, target)
    rc, o = sh(f'go test -vet=off -count=1 -timeout 300s ./{pd}/')
    rec['demo_fails_mutated'] = (rc != 0)
    os.remove(target)
    sh('git checkout -- . && git clean -fdq -e mutants')
    out.append(rec)
    print(json.dumps(rec), flush=True)
json.dump(out, open(os.path.join(wt, 'mutants', 'confirm.json'), 'w'), indent=1)
