#!/bin/sh
# runs every claimed check (quick tier) and prints one summary line each
cd /verif
for id in $(python3 -c "import json;print(' '.join(c['property_id'] for c in json.load(open('MANIFEST.json'))['checks']))"); do
  out=$(bin/govc check $id --tier ${1:-quick} 2>&1); rc=$?
  echo "$out" | grep -c "^KNOWN-FINDING" | xargs -I{} echo "$id rc=$rc known={} :: $(echo "$out" | tail -1)"
  echo "$out" | grep "^VIOLATION" | cut -c1-300
done
