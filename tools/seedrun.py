#!/usr/bin/env python3
"""Runs the registered check of a property against each confirmed sub-agent mutant:
applies the diff to /repo, runs `govc check ID --no-evidence`, reverts. Records /verif/seeded/<ID>/<mutant>/."""
import sys, os, subprocess, json, glob, shutil, re
ID, wt = sys.argv[1], sys.argv[2]
# the tree the mutant is applied to: /repo itself, or (SEED_REPO) a scratch worktree of /repo at the same commit,
# which lets other work go on in /repo meanwhile; the check is pointed at it with --repo
REPO = os.environ.get('SEED_REPO', '/repo')
checks = sys.argv[3:] or [ID]
conf = {r['mutant']: r for r in json.load(open(os.path.join(wt, 'mutants', 'confirm.json')))}
def sh(cmd, cwd='/verif'):
    r = subprocess.run(cmd, shell=True, cwd=cwd, capture_output=True, text=True)
    return r.returncode, r.stdout + r.stderr
assert sh(f'git -C {REPO} status --porcelain --untracked-files=no')[1].strip() == '', 'repo dirty'
for diff in sorted(glob.glob(os.path.join(wt, 'mutants', 'm*.diff'))):
    n = os.path.basename(diff)[:-5]
    c = conf.get(n, {})
    ok = c.get('demo_passes_clean') and c.get('existing_tests_pass') and c.get('demo_fails_mutated')
    d = f'/verif/seeded/{ID}/{n}'
    os.makedirs(d, exist_ok=True)
    shutil.copy(diff, os.path.join(d, 'patch.diff'))
    demo = os.path.join(wt, 'mutants', n + '_demo_test.go')
    if os.path.exists(demo): shutil.copy(demo, os.path.join(d, 'demo_test.go'))
    md = os.path.join(wt, 'mutants', n + '.md')
    desc = open(md).read() if os.path.exists(md) else ''
    rc, o = sh(f'git -C {REPO} apply {diff}')
    res = {}
    if rc != 0:
        res['apply_error'] = o[-500:]
    else:
        for cid in checks:
            rc, o = sh(f'bin/govc check {cid} --no-evidence --repo {REPO}')
            viol = [l for l in o.splitlines() if l.startswith('VIOLATION')]
            res[cid] = {'exit': rc, 'violations': [re.sub(r' replay=\S+', '', v)[:300] for v in viol], 'summary': o.strip().splitlines()[-1][:200] if o.strip() else ''}
        sh(f'git -C {REPO} checkout -- .')
    meta = {'property': ID, 'mutant': n, 'source': 'independent sub-agent given only the property text', 'files': c.get('files'),
            'demo_package': c.get('demo_pkg'), 'confirmed': {'demo_passes_on_clean_tree': c.get('demo_passes_clean'), 'existing_tests_pass_with_change': c.get('existing_tests_pass'), 'demo_fails_with_change': c.get('demo_fails_mutated')},
            'kept': bool(ok), 'description': desc[:3000], 'check_results': res,
            'what_i_ran': f'tools/seedconfirm.py {ID} <worktree> (go build, the whole existing suite go test ./... with failing packages re-run once, demo with/without change); tools/seedrun.py: git -C <repo> apply patch.diff; bin/govc check <ID> --repo <repo>; git -C <repo> checkout -- . (<repo> = ' + REPO + ', a worktree of /repo at ' + sh(f'git -C {REPO} rev-parse --short HEAD')[1].strip() + ')'}
    json.dump(meta, open(os.path.join(d, 'meta.json'), 'w'), indent=1)
    caught = any(v.get('exit') == 1 for v in res.values() if isinstance(v, dict))
    print(ID, n, 'CAUGHT' if caught else 'MISSED', '|', (desc.splitlines() or [''])[0][:100], '|', [ (k, v.get('violations', [])[:1]) for k, v in res.items() if isinstance(v, dict)][:2] if caught else res.get('apply_error',''))
