package main

import (
	"fmt"
	"go/token"
	"go/types"
	"strings"

	"golang.org/x/tools/go/ssa"
)

func isFloat(t types.Type) bool {
	b, ok := t.Underlying().(*types.Basic)
	return ok && b.Info()&types.IsFloat != 0
}
func isInt(t types.Type) bool {
	b, ok := t.Underlying().(*types.Basic)
	return ok && b.Info()&types.IsInteger != 0
}
func isString(t types.Type) bool {
	b, ok := t.Underlying().(*types.Basic)
	return ok && b.Info()&types.IsString != 0
}
func isBool(t types.Type) bool {
	b, ok := t.Underlying().(*types.Basic)
	return ok && b.Info()&types.IsBoolean != 0
}
func isIface(t types.Type) bool {
	_, ok := t.Underlying().(*types.Interface)
	return ok
}

func (ft *FT) ufun(name string, args []Sort, res Sort) string {
	ft.d.fun(name, args, res)
	return q(name)
}

func (ft *FT) wrapInt(t Term, typ types.Type) Term {
	if ft.con != nil && ft.con.MathInt {
		return t
	}
	if _, _, w, ok := intRange(typ); ok {
		return app(w, t)
	}
	return t
}

func (ft *FT) binop(op token.Token, x, y Term, xt, yt, rt types.Type, pos token.Pos, guard Term) Term {
	switch {
	case isFloat(xt) && op != token.SHL && op != token.SHR:
		switch op {
		case token.ADD:
			return app(ft.ufun("fadd", []Sort{"F64", "F64"}, "F64"), x, y)
		case token.SUB:
			return app(ft.ufun("fsub", []Sort{"F64", "F64"}, "F64"), x, y)
		case token.MUL:
			return app(ft.ufun("fmul", []Sort{"F64", "F64"}, "F64"), x, y)
		case token.QUO:
			return app(ft.ufun("fdiv", []Sort{"F64", "F64"}, "F64"), x, y)
		case token.EQL:
			return app(ft.ufun("feq", []Sort{"F64", "F64"}, "Bool"), x, y)
		case token.NEQ:
			return not(app(ft.ufun("feq", []Sort{"F64", "F64"}, "Bool"), x, y))
		case token.LSS:
			return app(ft.ufun("flt", []Sort{"F64", "F64"}, "Bool"), x, y)
		case token.LEQ:
			return app(ft.ufun("fle", []Sort{"F64", "F64"}, "Bool"), x, y)
		case token.GTR:
			return app(ft.ufun("flt", []Sort{"F64", "F64"}, "Bool"), y, x)
		case token.GEQ:
			return app(ft.ufun("fle", []Sort{"F64", "F64"}, "Bool"), y, x)
		}
	case isInt(xt):
		switch op {
		case token.ADD:
			return ft.wrapInt(app("+", x, y), rt)
		case token.SUB:
			return ft.wrapInt(app("-", x, y), rt)
		case token.MUL:
			return ft.wrapInt(app("*", x, y), rt)
		case token.QUO:
			ft.safety("div0", pos, guard, not(eq(y, "0")))
			return ft.wrapInt(app("tdiv", x, y), rt)
		case token.REM:
			ft.safety("div0", pos, guard, not(eq(y, "0")))
			return app("tmod", x, y)
		case token.EQL:
			return eq(x, y)
		case token.NEQ:
			return not(eq(x, y))
		case token.LSS:
			return app("<", x, y)
		case token.LEQ:
			return app("<=", x, y)
		case token.GTR:
			return app(">", x, y)
		case token.GEQ:
			return app(">=", x, y)
		case token.SHL, token.SHR, token.AND, token.OR, token.XOR, token.AND_NOT:
			return ft.bitop(op, x, y, xt, yt, rt)
		}
	case isString(xt):
		switch op {
		case token.ADD:
			return ft.sconcat(x, y)
		case token.EQL:
			return eq(x, y)
		case token.NEQ:
			return not(eq(x, y))
		case token.LSS:
			return app(ft.ufun("strlt", []Sort{"Str", "Str"}, "Bool"), x, y)
		case token.GTR:
			return app(ft.ufun("strlt", []Sort{"Str", "Str"}, "Bool"), y, x)
		case token.LEQ:
			return not(app(ft.ufun("strlt", []Sort{"Str", "Str"}, "Bool"), y, x))
		case token.GEQ:
			return not(app(ft.ufun("strlt", []Sort{"Str", "Str"}, "Bool"), x, y))
		}
	case isBool(xt):
		switch op {
		case token.EQL:
			return eq(x, y)
		case token.NEQ:
			return not(eq(x, y))
		case token.LAND, token.AND:
			return and(x, y)
		case token.LOR, token.OR:
			return or(x, y)
		}
	default:
		if isIface(xt) || isIface(yt) {
			// comparing interfaces panics when the dynamic type is not comparable
			if isIface(xt) && isIface(yt) {
				ft.safety("ifacecmp", pos, guard, or(not(eq(app("dyn", x), app("dyn", y))), ft.comparableDyn(x)))
			}
		}
		if isIface(xt) && isIface(yt) {
			// interface equality: same dynamic type and equal payload; float64 payloads compare with float ==
			_, ubx, fid := ft.d.box(types.Typ[types.Float64])
			ft.declComparable(types.Typ[types.Float64])
			feq := ft.ufun("feq", []Sort{"F64", "F64"}, "Bool")
			bothF := and(eq(app("dyn", x), num(int64(fid))), eq(app("dyn", y), num(int64(fid))))
			e := ite(bothF, app(feq, app(ubx, x), app(ubx, y)), eq(x, y))
			if op == token.EQL {
				return e
			}
			if op == token.NEQ {
				return not(e)
			}
		}
		switch op {
		case token.EQL:
			return eq(x, y)
		case token.NEQ:
			return not(eq(x, y))
		}
	}
	ft.errf("unsupported binop %s on %s", op, xt)
	return ft.fresh("binop", ft.d.sortOf(rt))
}

// comparableDyn: the dynamic type of x is comparable (not slice/map/func). Uninterpreted predicate
// over type ids with the facts for the ids known to this query added at render time.
func (ft *FT) comparableDyn(x Term) Term {
	ft.d.fun("comparable_type", []Sort{"Int"}, "Bool")
	ft.d.axiom("comparable nil", app("comparable_type", "0"))
	return app("comparable_type", app("dyn", x))
}

func (ft *FT) bitop(op token.Token, x, y Term, xt, yt, rt types.Type) Term {
	name := map[token.Token]string{token.SHL: "bv_shl", token.SHR: "bv_shr", token.AND: "bv_and", token.OR: "bv_or", token.XOR: "bv_xor", token.AND_NOT: "bv_andnot"}[op]
	f := ft.ufun(name, []Sort{"Int", "Int"}, "Int")
	r := app(f, x, y)
	switch op {
	case token.AND:
		// x & c with non-negative operands is bounded by both
		ft.d.axiom("bv_and bound", "(forall ((a Int) (b Int)) (! (=> (and (>= a 0) (>= b 0)) (and (>= (bv_and a b) 0) (<= (bv_and a b) a) (<= (bv_and a b) b))) :pattern ((bv_and a b))))")
	case token.SHL:
		return ft.wrapInt(r, rt)
	}
	return r
}

func (ft *FT) sconcat(x, y Term) Term {
	f := ft.ufun("sconcat", []Sort{"Str", "Str"}, "Str")
	ft.d.axiom("sconcat len", "(forall ((a Str) (b Str)) (! (= (slen (sconcat a b)) (+ (slen a) (slen b))) :pattern ((sconcat a b))))")
	ft.d.axiom("sconcat at", "(forall ((a Str) (b Str) (i Int)) (! (= (sat (sconcat a b) i) (ite (< i (slen a)) (sat a i) (sat b (- i (slen a))))) :pattern ((sat (sconcat a b) i))))")
	ft.d.axiom("sconcat empty-r", "(forall ((a Str)) (! (= (sconcat a str!empty) a) :pattern ((sconcat a str!empty))))")
	ft.d.axiom("sconcat empty-l", "(forall ((a Str)) (! (= (sconcat str!empty a) a) :pattern ((sconcat str!empty a))))")
	return app(f, x, y)
}

func (ft *FT) ssub(s, lo, hi Term) Term {
	f := ft.ufun("ssub", []Sort{"Str", "Int", "Int"}, "Str")
	ft.d.axiom("ssub len", "(forall ((a Str) (i Int) (j Int)) (! (=> (and (<= 0 i) (<= i j) (<= j (slen a))) (= (slen (ssub a i j)) (- j i))) :pattern ((ssub a i j))))")
	ft.d.axiom("ssub at", "(forall ((a Str) (i Int) (j Int) (k Int)) (! (=> (and (<= 0 i) (<= i j) (<= j (slen a)) (<= 0 k) (< k (- j i))) (= (sat (ssub a i j) k) (sat a (+ i k)))) :pattern ((sat (ssub a i j) k))))")
	ft.d.axiom("ssub whole", "(forall ((a Str)) (! (= (ssub a 0 (slen a)) a) :pattern ((ssub a 0 (slen a)))))")
	return app(f, s, lo, hi)
}

func (ft *FT) instr(ins ssa.Instruction, st *State, guard Term) {
	ft.stateNow = st
	switch x := ins.(type) {
	case *ssa.DebugRef:
		return
	case *ssa.Alloc:
		ft.alloc(x, st, guard)
	case *ssa.FieldAddr:
		l := ft.fieldLoc(x.X, x.Field)
		ft.locs[x] = l
		if _, isPtr := x.X.Type().Underlying().(*types.Pointer); isPtr {
			if bl := ft.locs[x.X]; bl == nil {
				ft.safety("nil", x.Pos(), guard, not(eq(ft.val(x.X), "0")))
			}
		}
	case *ssa.IndexAddr:
		ft.indexAddr(x, st, guard)
	case *ssa.UnOp:
		ft.unop(x, st, guard)
	case *ssa.BinOp:
		t := ft.binop(x.Op, ft.val(x.X), ft.val(x.Y), x.X.Type(), x.Y.Type(), x.Type(), x.Pos(), guard)
		ft.define(x, t)
	case *ssa.Store:
		l := ft.locOf(x.Addr)
		ft.checkDeref(x.Addr, x.Pos(), guard)
		ft.guardedAccess(x.Addr, true, x.Pos(), guard)
		ft.store(st, l, ft.val(x.Val))
	case *ssa.Phi:
	case *ssa.Call:
		res := ft.call(st, guard, x.Common(), nil, x, x.Pos())
		sig := x.Common().Signature()
		switch sig.Results().Len() {
		case 0:
			ft.env[x] = nil
		case 1:
			ft.env[x] = res[:1]
		default:
			ft.env[x] = res
		}
	case *ssa.Extract:
		ts := ft.env[x.Tuple]
		if x.Index >= len(ts) {
			ft.errf("extract out of range on %s", x.Tuple.Name())
			ft.defineFresh(x, st, guard)
			return
		}
		ft.env[x] = []Term{ts[x.Index]}
	case *ssa.If:
		c := ft.val(x.Cond)
		b := x.Block()
		ft.edge[[2]int{b.Index, b.Succs[0].Index}] = and(guard, c)
		ft.edge[[2]int{b.Index, b.Succs[1].Index}] = and(guard, not(c))
	case *ssa.Jump:
		b := x.Block()
		ft.edge[[2]int{b.Index, b.Succs[0].Index}] = guard
	case *ssa.Return:
		ft.ret(x, st, guard)
	case *ssa.Panic:
		if ft.con == nil || !ft.con.MayPanic {
			ft.oblige("panic", x.Pos(), "", guard, "false", ft.con != nil && ft.con.Strict)
		} else {
			// declared panic exit: checked against ensures_on_panic
			ft.keySort("$panicking", "Bool")
			ft.set(st, "$panicking", "true")
			ft.exitObligations(x.Pos(), st, guard, nil, true)
		}
		ft.panicExit(x, st, guard)
	case *ssa.MakeInterface:
		bx, _, _ := ft.d.box(x.X.Type())
		t := app(bx, ft.val(x.X))
		ft.define(x, t)
		ft.declComparable(x.X.Type())
	case *ssa.ChangeInterface:
		ft.env[x] = []Term{ft.val(x.X)}
	case *ssa.ChangeType:
		ft.env[x] = []Term{ft.val(x.X)}
	case *ssa.Convert:
		ft.convert(x, st, guard)
	case *ssa.TypeAssert:
		ft.typeAssert(x, st, guard)
	case *ssa.MakeMap:
		r := ft.allocRef(st)
		mt := x.Type().Underlying().(*types.Map)
		ks := ft.mapKeys(mt)
		ksrt, vsrt := ft.d.sortOf(mt.Key()), ft.d.sortOf(mt.Elem())
		ft.set(st, ks[0], app("store", ft.get(st, ks[0]), r, fmt.Sprintf("((as const %s) false)", arraySort(ksrt, "Bool"))))
		_ = vsrt
		ft.set(st, ks[2], app("store", ft.get(st, ks[2]), r, "0"))
		ft.define(x, r)
	case *ssa.MakeSlice:
		ft.makeSlice(x, st, guard)
	case *ssa.MakeChan:
		r := ft.allocRef(st)
		ft.define(x, r)
		// a new channel is open
		ft.keySort("CLOSED", arraySort("Int", "Bool"))
		ft.set(st, "CLOSED", app("store", ft.get(st, "CLOSED"), r, "false"))
	case *ssa.MakeClosure:
		r := ft.allocRef(st)
		ft.define(x, r)
	case *ssa.Lookup:
		ft.lookup(x, st, guard)
	case *ssa.MapUpdate:
		ft.guardedMap(x.Map, true, x.Pos(), guard)
		ft.mapUpdate(st, guard, ft.val(x.Map), x.Map.Type().Underlying().(*types.Map), ft.val(x.Key), ft.val(x.Value), x.Pos())
	case *ssa.Slice:
		ft.sliceOp(x, st, guard)
	case *ssa.Field:
		stt, _ := ft.structOf(x.X.Type())
		ft.d.sortOf(x.X.Type())
		sname := ft.d.structName(x.X.Type())
		ft.define(x, app(fieldAcc(sname, x.Field, stt.Field(x.Field).Name()), ft.val(x.X)))
	case *ssa.Index:
		switch x.X.Type().Underlying().(type) {
		case *types.Array:
			ft.define(x, app("select", ft.val(x.X), ft.val(x.Index)))
		case *types.Basic:
			// byte of a string
			sv, iv := ft.val(x.X), ft.val(x.Index)
			ft.safety("bounds", x.Pos(), guard, and(app("<=", "0", iv), app("<", iv, app("slen", sv))))
			ft.define(x, app("sat", sv, iv))
		default:
			ft.errf("Index on %s", x.X.Type())
			ft.defineFresh(x, st, guard)
		}
	case *ssa.Range:
		if _, ok := x.X.Type().Underlying().(*types.Map); ok {
			k := ft.visKey(x)
			mt := x.X.Type().Underlying().(*types.Map)
			ft.set(st, k, fmt.Sprintf("((as const %s) false)", arraySort(ft.d.sortOf(mt.Key()), "Bool")))
		} else {
			k := ft.visKey(x)
			ft.set(st, k, "0")
		}
		ft.env[x] = []Term{"0"}
	case *ssa.Next:
		ft.next(x, st, guard)
	case *ssa.Defer:
		k := ft.deferKey(x)
		var args []Term
		for _, a := range x.Call.Args {
			args = append(args, ft.val(a))
		}
		if !x.Call.IsInvoke() {
			if _, isB := x.Call.Value.(*ssa.Builtin); !isB {
				if _, isF := x.Call.Value.(*ssa.Function); !isF {
					args = append([]Term{ft.val(x.Call.Value)}, args...)
				}
			}
		} else {
			args = append([]Term{ft.val(x.Call.Value)}, args...)
		}
		ft.defers = append(ft.defers, &deferRec{flagKey: k, common: &x.Call, args: args, instr: x})
		ft.set(st, k, "true")
	case *ssa.RunDefers:
		ft.runDefers(st, guard, x.Pos())
	case *ssa.Go:
		ft.goStmt(x, st, guard)
	case *ssa.Send:
		ft.sendObligations(x.Chan, x.Pos(), st, guard)
		ft.note("channel operations carry no heap effect in the model (interference enters only at Lock)")
	case *ssa.Select:
		for _, sst := range x.States {
			if sst.Dir == types.SendOnly {
				ft.sendObligations(sst.Chan, x.Pos(), st, guard)
			}
		}
		ft.note("channel operations carry no heap effect in the model (interference enters only at Lock)")
		var ts []Term
		tup := x.Type().(*types.Tuple)
		for i := 0; i < tup.Len(); i++ {
			t := ft.fresh("sel", ft.d.sortOf(tup.At(i).Type()))
			ft.assume("true", ft.typeInv(t, tup.At(i).Type(), st))
			ts = append(ts, t)
		}
		ft.env[x] = ts
		if len(ts) > 0 {
			// the chosen case is one of the listed ones (or -1, the default, for a non-blocking select)
			lo := "0"
			if !x.Blocking {
				lo = "(- 1)"
			}
			ft.assume("true", and(app("<=", lo, ts[0]), app("<", ts[0], num(int64(len(x.States))))))
		}
		if !x.Blocking && len(ts) > 0 {
			// the default case runs only if no communication can proceed; a receive from a closed channel always can
			for _, sst := range x.States {
				if sst.Dir == types.RecvOnly {
					ft.keySort("CLOSED", arraySort("Int", "Bool"))
					ft.assume(guard, implies(eq(ts[0], "(- 1)"), not(app("select", ft.get(st, "CLOSED"), ft.val(sst.Chan)))))
				}
			}
		}
	default:
		ft.errf("unsupported instruction %T: %s", ins, ins)
		if v, ok := ins.(ssa.Value); ok {
			ft.defineFresh(v, st, guard)
		}
	}
}

func (ft *FT) declComparable(t types.Type) {
	id := ft.d.typeID(t)
	ft.d.fun("comparable_type", []Sort{"Int"}, "Bool")
	c := types.Comparable(t)
	if c {
		ft.d.axiom(fmt.Sprintf("comparable %d", id), app("comparable_type", num(int64(id))))
	} else {
		ft.d.axiom(fmt.Sprintf("comparable %d", id), not(app("comparable_type", num(int64(id)))))
	}
}

func (ft *FT) allocRef(st *State) Term {
	nx := ft.get(st, "$next")
	r := ft.fresh("ref", "Int")
	ft.asserts = append(ft.asserts, "(assert "+eq(r, nx)+")")
	ft.set(st, "$next", app("+", nx, "1"))
	return r
}

func (ft *FT) alloc(x *ssa.Alloc, st *State, guard Term) {
	elem := deref(x.Type())
	if ft.privateAlloc(x) {
		if stt, ok := elem.Underlying().(*types.Struct); ok && !isOpaqueInt(elem) {
			_ = stt
			k := ft.privKey(x)
			ft.set(st, k, ft.d.zero(elem))
			ft.locs[x] = &Loc{key: k, typ: elem}
			ft.env[x] = []Term{"0"}
			return
		}
		k := ft.privKey(x)
		ft.set(st, k, ft.d.zero(elem))
		ft.locs[x] = &Loc{key: k, typ: elem}
		ft.env[x] = []Term{"0"}
		return
	}
	r := ft.allocRef(st)
	ft.define(x, r)
	l := ft.locOf(x)
	ft.store(st, l, ft.d.zero(elem))
	if types.TypeString(elem, nil) == "strings.Builder" {
		// a fresh builder holds the empty string: trivially safe text
		if sf := ft.eng.cons.Specs["bsafe"]; sf != nil && sf.Ghost {
			ft.keySort("G!bsafe", arraySort("Int", "Bool"))
			ft.set(st, "G!bsafe", app("store", ft.get(st, "G!bsafe"), r, "true"))
		}
	}
}

func (ft *FT) checkDeref(addr ssa.Value, pos token.Pos, guard Term) {
	if _, ok := ft.locs[addr]; ok {
		return
	}
	switch addr.(type) {
	case *ssa.Global, *ssa.FreeVar, *ssa.Alloc:
		return
	}
	ft.safety("nil", pos, guard, not(eq(ft.val(addr), "0")))
}

func (ft *FT) indexAddr(x *ssa.IndexAddr, st *State, guard Term) {
	i := ft.val(x.Index)
	switch xt := x.X.Type().Underlying().(type) {
	case *types.Slice:
		s := ft.val(x.X)
		ft.safety("bounds", x.Pos(), guard, and(app("<=", "0", i), app("<", i, app("sl-len", s))))
		ft.locs[x] = &Loc{key: ft.elemKey(xt.Elem()), idx: []Term{app("sl-base", s), app("+", app("sl-off", s), i)}, typ: xt.Elem(), sl: s, si: i}
	case *types.Pointer:
		at := xt.Elem().Underlying().(*types.Array)
		ft.safety("bounds", x.Pos(), guard, and(app("<=", "0", i), app("<", i, num(at.Len()))))
		bl := ft.locOf(x.X)
		if bl.key != "" && len(bl.path) == 0 && strings.HasPrefix(bl.key, "E!") && len(bl.idx) == 1 {
			ft.locs[x] = &Loc{key: bl.key, idx: []Term{bl.idx[0], i}, typ: at.Elem()}
		} else {
			np := append(append([]pathStep{}, bl.path...), pathStep{idx: i})
			ft.locs[x] = &Loc{key: bl.key, idx: bl.idx, path: np, typ: at.Elem(), obj: bl.obj}
		}
	default:
		ft.errf("IndexAddr on %s", x.X.Type())
	}
}

func (ft *FT) unop(x *ssa.UnOp, st *State, guard Term) {
	switch x.Op {
	case token.MUL:
		l := ft.locOf(x.X)
		ft.checkDeref(x.X, x.Pos(), guard)
		ft.guardedAccess(x.X, false, x.Pos(), guard)
		t := ft.define(x, ft.load(st, l))
		ft.assume("true", ft.typeInv(t, x.Type(), st))
	case token.NOT:
		ft.define(x, not(ft.val(x.X)))
	case token.SUB:
		if isFloat(x.Type()) {
			ft.define(x, app(ft.ufun("fneg", []Sort{"F64"}, "F64"), ft.val(x.X)))
		} else {
			ft.define(x, ft.wrapInt(app("-", ft.val(x.X)), x.Type()))
		}
	case token.XOR:
		ft.define(x, app(ft.ufun("bv_not", []Sort{"Int"}, "Int"), ft.val(x.X)))
	case token.ARROW:
		ft.note("channel operations carry no heap effect in the model (interference enters only at Lock)")
		if x.CommaOk {
			tup := x.Type().(*types.Tuple)
			v := ft.fresh("recv", ft.d.sortOf(tup.At(0).Type()))
			ok := ft.fresh("recvok", "Bool")
			ft.assume("true", ft.typeInv(v, tup.At(0).Type(), st))
			ft.env[x] = []Term{v, ok}
		} else {
			ft.defineFresh(x, st, guard)
		}
	default:
		ft.errf("unsupported unop %s", x.Op)
		ft.defineFresh(x, st, guard)
	}
}

func (ft *FT) convert(x *ssa.Convert, st *State, guard Term) {
	from, to := x.X.Type(), x.Type()
	v := ft.val(x.X)
	switch {
	case isInt(from) && isInt(to):
		lo, hi, w, _ := intRange(to)
		flo, fhi, _, _ := intRange(from)
		if (flo == lo && fhi == hi) || (ft.con != nil && ft.con.MathInt) {
			ft.env[x] = []Term{v}
			return
		}
		ft.define(x, app(w, v))
	case isInt(from) && isFloat(to):
		ft.define(x, app(ft.ufun("i2f", []Sort{"Int"}, "F64"), v))
	case isFloat(from) && isInt(to):
		t := ft.define(x, app(ft.ufun("f2i", []Sort{"F64"}, "Int"), v))
		ft.d.axiom("f2i i2f", "(forall ((i Int)) (! (= (f2i (i2f i)) i) :pattern ((i2f i))))")
		ft.assume("true", ft.typeInv(t, to, st))
	case isFloat(from) && isFloat(to):
		ft.env[x] = []Term{v}
	case isString(to) && isInt(from):
		ft.define(x, app(ft.ufun("rune2str", []Sort{"Int"}, "Str"), v))
		// string(r) is the UTF-8 encoding of one code point (U+FFFD for an invalid one): 1 to 4 bytes
		ft.d.axiom("rune2str len", "(forall ((r Int)) (! (and (<= 1 (slen (rune2str r))) (<= (slen (rune2str r)) 4)) :pattern ((rune2str r))))")
	case isString(to):
		// []byte / []rune -> string
		f := ft.ufun("bytes2str", []Sort{"Slice", arraySort("Int", "Int")}, "Str")
		if sl, ok := from.Underlying().(*types.Slice); ok {
			k := ft.elemKey(sl.Elem())
			if ft.heaps[k].sort == arraySort("Int", arraySort("Int", "Int")) {
				t := ft.define(x, app(f, v, sel(ft.get(st, k), app("sl-base", v))))
				if b, ok := sl.Elem().Underlying().(*types.Basic); ok && b.Kind() == types.Uint8 {
					ft.assume("true", eq(app("slen", t), app("sl-len", v)))
				}
				return
			}
		}
		ft.defineFresh(x, st, guard)
	case isString(from):
		// string -> []byte / []rune : fresh slice
		r := ft.allocRef(st)
		sl := to.Underlying().(*types.Slice)
		n := ft.fresh("cvlen", "Int")
		if b, ok := sl.Elem().Underlying().(*types.Basic); ok && b.Kind() == types.Uint8 {
			ft.assume("true", eq(n, app("slen", v)))
			k := ft.elemKey(sl.Elem())
			arr := ft.fresh("cvarr", arraySort("Int", "Int"))
			ft.assume("true", forall([][2]string{{"i", "Int"}}, implies(and(app("<=", "0", "i"), app("<", "i", n)), eq(app("select", arr, "i"), app("sat", v, "i")))))
			ft.set(st, k, app("store", ft.get(st, k), r, arr))
		} else {
			// []rune(s): the number of code points is a function of the string (runecount), at most its length in bytes
			rc := ft.ufun("runecount", []Sort{"Str"}, "Int")
			ft.d.axiom("runecount range", "(forall ((s Str)) (! (and (<= 0 (runecount s)) (<= (runecount s) (slen s))) :pattern ((runecount s))))")
			ft.assume("true", eq(n, app(rc, v)))
		}
		ft.define(x, app("mk-slice", r, "0", n, n))
	default:
		if ft.d.sortOf(from) == ft.d.sortOf(to) {
			ft.env[x] = []Term{v}
			return
		}
		ft.errf("unsupported conversion %s -> %s", from, to)
		ft.defineFresh(x, st, guard)
	}
}

func (ft *FT) typeAssert(x *ssa.TypeAssert, st *State, guard Term) {
	v := ft.val(x.X)
	if isIface(x.AssertedType) {
		// interface-to-interface assertion
		it := x.AssertedType.Underlying().(*types.Interface)
		var ok Term
		if it.NumMethods() == 0 {
			ok = not(eq(app("dyn", v), "0"))
		} else {
			f := ft.ufun("implements!"+typeKeyName(x.AssertedType), []Sort{"Int"}, "Bool")
			ft.d.axiom("implements nil "+typeKeyName(x.AssertedType), not(app(f, "0")))
			ok = app(f, app("dyn", v))
		}
		if x.CommaOk {
			okc := ft.fresh("ok", "Bool")
			ft.asserts = append(ft.asserts, "(assert "+eq(okc, ok)+")")
			ft.env[x] = []Term{ite(okc, v, "iface!nil"), okc}
		} else {
			ft.safety("typeassert", x.Pos(), guard, ok)
			ft.env[x] = []Term{v}
		}
		return
	}
	bx, ubx, id := ft.d.box(x.AssertedType)
	_ = bx
	ft.declComparable(x.AssertedType)
	ok := eq(app("dyn", v), num(int64(id)))
	if x.CommaOk {
		okc := ft.fresh("ok", "Bool")
		ft.asserts = append(ft.asserts, "(assert "+eq(okc, ok)+")")
		val := ft.fresh("v!"+x.Name(), ft.d.sortOf(x.AssertedType))
		ft.asserts = append(ft.asserts, "(assert "+eq(val, ite(okc, app(ubx, v), ft.d.zero(x.AssertedType)))+")")
		ft.assume("true", implies(okc, ft.typeInv(val, x.AssertedType, st)))
		ft.env[x] = []Term{val, okc}
		return
	}
	ft.safety("typeassert", x.Pos(), guard, ok)
	t := ft.define(x, app(ubx, v))
	ft.assume("true", ft.typeInv(t, x.AssertedType, st))
}

func (ft *FT) makeSlice(x *ssa.MakeSlice, st *State, guard Term) {
	sl := x.Type().Underlying().(*types.Slice)
	n, c := ft.val(x.Len), ft.val(x.Cap)
	ft.safety("makeslice", x.Pos(), guard, and(app("<=", "0", n), app("<=", n, c)))
	if ft.con != nil && ft.con.AllocBound != nil {
		ft.allocBound(x.Pos(), guard, c, st)
	}
	r := ft.allocRef(st)
	k := ft.elemKey(sl.Elem())
	es := ft.d.sortOf(sl.Elem())
	ft.set(st, k, app("store", ft.get(st, k), r, fmt.Sprintf("((as const %s) %s)", arraySort("Int", es), ft.d.zero(sl.Elem()))))
	ft.define(x, app("mk-slice", r, "0", n, c))
}

func (ft *FT) lookup(x *ssa.Lookup, st *State, guard Term) {
	if mt, ok := x.X.Type().Underlying().(*types.Map); ok {
		m, k := ft.val(x.X), ft.val(x.Index)
		ks := ft.mapKeys(mt)
		if isIface(mt.Key()) {
			ft.safety("ifacecmp", x.Pos(), guard, ft.comparableDyn(k))
		}
		ft.guardedMap(x.X, false, x.Pos(), guard)
		has := and(not(eq(m, "0")), sel(ft.get(st, ks[0]), m, k))
		val := ite(has, sel(ft.get(st, ks[1]), m, k), ft.d.zero(mt.Elem()))
		if x.CommaOk {
			okc := ft.fresh("ok", "Bool")
			ft.asserts = append(ft.asserts, "(assert "+eq(okc, has)+")")
			vc := ft.fresh("v!"+x.Name(), ft.d.sortOf(mt.Elem()))
			ft.asserts = append(ft.asserts, "(assert "+eq(vc, val)+")")
			ft.assume("true", ft.typeInv(vc, mt.Elem(), st))
			ft.env[x] = []Term{vc, okc}
		} else {
			t := ft.define(x, val)
			ft.assume("true", ft.typeInv(t, mt.Elem(), st))
		}
		return
	}
	// string index
	s, i := ft.val(x.X), ft.val(x.Index)
	ft.safety("bounds", x.Pos(), guard, and(app("<=", "0", i), app("<", i, app("slen", s))))
	ft.define(x, app("sat", s, i))
}

func (ft *FT) mapUpdate(st *State, guard Term, m Term, mt *types.Map, k, v Term, pos token.Pos) {
	ks := ft.mapKeys(mt)
	ft.safety("nilmap", pos, guard, not(eq(m, "0")))
	if isIface(mt.Key()) {
		ft.safety("ifacecmp", pos, guard, ft.comparableDyn(k))
	}
	md, mv, ml := ft.get(st, ks[0]), ft.get(st, ks[1]), ft.get(st, ks[2])
	had := sel(md, m, k)
	ft.set(st, ks[0], app("store", md, m, app("store", sel(md, m), k, "true")))
	ft.set(st, ks[1], app("store", mv, m, app("store", sel(mv, m), k, v)))
	ft.set(st, ks[2], app("store", ml, m, app("+", sel(ml, m), ite(had, "0", "1"))))
}

func (ft *FT) mapDelete(st *State, guard Term, m Term, mt *types.Map, k Term) {
	ks := ft.mapKeys(mt)
	md, ml := ft.get(st, ks[0]), ft.get(st, ks[2])
	had := and(not(eq(m, "0")), sel(md, m, k))
	nmd := ft.fresh("md", ft.heaps[ks[0]].sort)
	ft.asserts = append(ft.asserts, "(assert "+eq(nmd, ite(eq(m, "0"), md, app("store", md, m, app("store", sel(md, m), k, "false"))))+")")
	ft.set(st, ks[0], nmd)
	nml := ft.fresh("ml", ft.heaps[ks[2]].sort)
	ft.asserts = append(ft.asserts, "(assert "+eq(nml, ite(had, app("store", ml, m, app("-", sel(ml, m), "1")), ml))+")")
	ft.set(st, ks[2], nml)
}

func (ft *FT) mapLen(st *State, m Term, mt *types.Map) Term {
	ks := ft.mapKeys(mt)
	return ite(eq(m, "0"), "0", sel(ft.get(st, ks[2]), m))
}

func (ft *FT) sliceOp(x *ssa.Slice, st *State, guard Term) {
	var lo, hi, mx Term
	lo = "0"
	if x.Low != nil {
		lo = ft.val(x.Low)
	}
	switch xt := x.X.Type().Underlying().(type) {
	case *types.Basic: // string
		s := ft.val(x.X)
		hi = app("slen", s)
		if x.High != nil {
			hi = ft.val(x.High)
		}
		ft.safety("bounds", x.Pos(), guard, and(app("<=", "0", lo), app("<=", lo, hi), app("<=", hi, app("slen", s))))
		ft.define(x, ft.ssub(s, lo, hi))
	case *types.Slice:
		s := ft.val(x.X)
		hi = app("sl-len", s)
		if x.High != nil {
			hi = ft.val(x.High)
		}
		mx = app("sl-cap", s)
		if x.Max != nil {
			mx = ft.val(x.Max)
		}
		ft.safety("bounds", x.Pos(), guard, and(app("<=", "0", lo), app("<=", lo, hi), app("<=", hi, mx), app("<=", mx, app("sl-cap", s))))
		ft.define(x, app("mk-slice", app("sl-base", s), app("+", app("sl-off", s), lo), app("-", hi, lo), app("-", mx, lo)))
		// bridge for quantified facts stated over the parent slice: an element of the sub-slice is an
		// element of the parent (a consequence of the definition of at!, given as a trigger-friendly fact)
		if k := ft.elemKey(xt.Elem()); ft.heaps[k] != nil {
			at := ft.atFun(k)
			hs := ft.heaps[k].sort
			ft.asserts = append(ft.asserts, fmt.Sprintf("(assert (forall ((E %s) (k Int)) (! (= (%s E %s k) (%s E %s (+ %s k))) :pattern ((%s E %s k)))))", hs, at, ft.val(x), at, s, lo, at, ft.val(x)))
		}
	case *types.Pointer: // *array
		at := xt.Elem().Underlying().(*types.Array)
		n := num(at.Len())
		hi = n
		if x.High != nil {
			hi = ft.val(x.High)
		}
		ft.safety("bounds", x.Pos(), guard, and(app("<=", "0", lo), app("<=", lo, hi), app("<=", hi, n)))
		bl := ft.locOf(x.X)
		if bl.key != "" && strings.HasPrefix(bl.key, "E!") && len(bl.idx) == 1 && len(bl.path) == 0 {
			ft.define(x, app("mk-slice", bl.idx[0], lo, app("-", hi, lo), app("-", n, lo)))
		} else {
			ft.errf("slice of array that is not a plain allocation")
			ft.defineFresh(x, st, guard)
		}
	default:
		ft.errf("Slice on %s", x.X.Type())
		ft.defineFresh(x, st, guard)
	}
}

func (ft *FT) next(x *ssa.Next, st *State, guard Term) {
	r, _ := x.Iter.(*ssa.Range)
	tup := x.Type().(*types.Tuple)
	okc := ft.fresh("rok", "Bool")
	if x.IsString || r == nil {
		k := ft.fresh("rk", "Int")
		v := ft.fresh("rv", "Int")
		ft.env[x] = []Term{okc, k, v}
		ft.note("string range: index/rune values unconstrained")
		return
	}
	mt := r.X.Type().Underlying().(*types.Map)
	ks := ft.mapKeys(mt)
	m := ft.val(r.X)
	vk := ft.visKey(r)
	ksrt := ft.d.sortOf(mt.Key())
	key := ft.fresh("rk", ksrt)
	ft.guardedMap(r.X, false, x.Pos(), guard)
	vis := ft.get(st, vk)
	md := ft.get(st, ks[0])
	ft.assume("true", ft.typeInv(key, tup.At(1).Type(), st))
	ft.assume(and(guard, okc), and(not(eq(m, "0")), sel(md, m, key), not(app("select", vis, key))))
	ft.assume(and(guard, not(okc)), or(eq(m, "0"), forall([][2]string{{"k", ksrt}}, implies(sel(md, m, "k"), app("select", vis, "k")))))
	// cardinality fact of the map model at range exhaustion: a map without keys has length 0
	ft.assume(and(guard, not(okc)), implies(forall([][2]string{{"k", ksrt}}, not(sel(md, m, "k"))), eq(ft.mapLen(st, m, mt), "0")))
	val := ft.fresh("rv", ft.d.sortOf(mt.Elem()))
	ft.asserts = append(ft.asserts, "(assert "+implies(okc, eq(val, sel(ft.get(st, ks[1]), m, key)))+")")
	ft.assume("true", ft.typeInv(val, mt.Elem(), st))
	nvis := ft.fresh("vis", ft.heaps[vk].sort)
	ft.asserts = append(ft.asserts, "(assert "+eq(nvis, ite(okc, app("store", vis, key, "true"), vis))+")")
	ft.set(st, vk, nvis)
	ft.env[x] = []Term{okc, key, val}
}

func (ft *FT) ret(x *ssa.Return, st *State, guard Term) {
	var res []Term
	for _, r := range x.Results {
		res = append(res, ft.val(r))
	}
	ft.exitObligations(x.Pos(), st, guard, res, false)
}

func (ft *FT) panicExit(x *ssa.Panic, st *State, guard Term) {
	// deferred calls still run on panic; obligations at exit (e.g. held locks) are not checked here.
}

// sendObligations: `sendpre` clauses of the contract, with `ch` bound to the channel being sent on.
func (ft *FT) sendObligations(ch ssa.Value, pos token.Pos, st *State, guard Term) {
	if ft.con == nil || len(ft.con.SendPre) == 0 {
		return
	}
	ctx := ft.specCtx(st, ft.entry)
	if ft.curBlk != nil {
		ctx.local = ft.localResolver(ft.curBlk, false, nil, nil, ctx.local)
	}
	ctx.vars["ch"] = SpecVal{T: ft.val(ch), Typ: ch.Type(), Sort: "Int"}
	for _, cl := range ft.con.SendPre {
		t, err := ctx.boolExpr(cl.Expr)
		if err != nil {
			ft.errf("sendpre %q: %v", cl.Text, err)
			continue
		}
		ft.oblige("pre@send", pos, cl.Text, guard, t, true)
	}
}
