package main

import (
	"fmt"
	"go/types"
	"golang.org/x/tools/go/ssa"
	"sort"
	"strings"
)

// State is the symbolic heap: heap key -> current SMT term. Keys absent from the map read as
// the epoch's base version (key@e<epoch>), so that a havoc-all only has to bump the epoch.
type State struct {
	m     map[string]Term
	epoch int
}

func (s *State) clone() *State {
	n := &State{m: make(map[string]Term, len(s.m)), epoch: s.epoch}
	for k, v := range s.m {
		n.m[k] = v
	}
	return n
}

// heapInfo records the sort of each heap key seen.
type heapInfo struct {
	sort Sort
}

func (ft *FT) keySort(key string, s Sort) {
	if old, ok := ft.heaps[key]; ok {
		if old.sort != s {
			panic(fmt.Sprintf("heap key %s used at two sorts: %s vs %s", key, old.sort, s))
		}
		return
	}
	ft.heaps[key] = &heapInfo{sort: s}
}

// get returns the current term for key (declaring the epoch base version on demand).
func (ft *FT) get(st *State, key string) Term {
	if t, ok := st.m[key]; ok {
		return t
	}
	hi := ft.heaps[key]
	if hi == nil {
		panic("heap key without sort: " + key)
	}
	name := fmt.Sprintf("%s@e%d", key, st.epoch)
	ft.d.cnst(name, hi.sort)
	return q(name)
}

func (ft *FT) set(st *State, key string, t Term) {
	st.m[key] = t
}

// freshVersion assigns a brand-new unconstrained version to key.
func (ft *FT) freshVersion(st *State, key string) Term {
	hi := ft.heaps[key]
	ft.ctr++
	name := fmt.Sprintf("%s@h%d", key, ft.ctr)
	ft.d.cnst(name, hi.sort)
	st.m[key] = q(name)
	return q(name)
}

// havocAll forgets everything except private locals (L! keys) and defer flags.
func (ft *FT) havocAll(st *State) {
	ft.ctr++
	keep := map[string]Term{}
	for k, v := range st.m {
		if strings.HasPrefix(k, "L!") || strings.HasPrefix(k, "D!") || strings.HasPrefix(k, "VIS!") || k == "HELD" || k == "$panicking" {
			keep[k] = v
		}
	}
	// `decl frozen pkg.T` (in the contract file of the function's package): values of struct type T are
	// never written after construction - their field heaps and element heaps survive a havoc. The
	// declaration is an assumption of the property unless a `types-frozen` scan backs it.
	for _, fz := range ft.frozenTypes() {
		for k := range ft.heaps {
			if k == "E!S!"+fz || strings.HasPrefix(k, "F!"+fz+".") {
				keep[k] = ft.get(st, k)
			}
		}
	}
	// keys that survive a havoc must be materialised first (an absent key would read as the new epoch's base version)
	for _, k := range []string{"HELD", "$panicking"} {
		if _, ok := keep[k]; !ok && ft.heaps[k] != nil {
			keep[k] = ft.get(st, k)
		}
	}
	nextOld := ft.get(st, "$next")
	// ownership: a map made by this function whose reference never leaves it (it is only read, updated,
	// ranged over and returned) cannot be touched by the code that is being havocked
	type keep2 struct {
		k   string
		old Term
	}
	var owned []keep2
	priv := ft.privateMaps()
	if len(priv) > 0 {
		for _, k := range sortedHeapKeys(ft.heaps) {
			if strings.HasPrefix(k, "MD!") || strings.HasPrefix(k, "MV!") || strings.HasPrefix(k, "ML!") {
				owned = append(owned, keep2{k, ft.get(st, k)})
			}
		}
	}
	st.m = keep
	st.epoch = ft.ctr
	nn := ft.get(st, "$next")
	ft.assume("true", app("<=", nextOld, nn))
	for _, o := range owned {
		nw := ft.get(st, o.k)
		for _, v := range priv {
			ft.assume("true", eq(app("select", nw, v), app("select", o.old, v)))
		}
	}
}

func sortedHeapKeys(m map[string]*heapInfo) []string {
	var ks []string
	for k := range m {
		ks = append(ks, k)
	}
	sort.Strings(ks)
	return ks
}

// privateMaps: terms of the maps this function has made (and already translated) that never escape:
// every use is a lookup, an update of the map itself, a range, len/delete, a debug reference or a return.
func (ft *FT) privateMaps() []Term {
	if ft.privMaps == nil {
		ft.privMaps = map[ssa.Value]bool{}
		for _, b := range ft.fn.Blocks {
			for _, ins := range b.Instrs {
				mm, ok := ins.(*ssa.MakeMap)
				if !ok || mm.Referrers() == nil {
					continue
				}
				private := true
				for _, r := range *mm.Referrers() {
					switch u := r.(type) {
					case *ssa.Lookup:
						private = private && u.X == ssa.Value(mm) && u.Index != ssa.Value(mm)
					case *ssa.MapUpdate:
						private = private && u.Map == ssa.Value(mm) && u.Key != ssa.Value(mm) && u.Value != ssa.Value(mm)
					case *ssa.Range, *ssa.DebugRef, *ssa.Return:
					case *ssa.Call:
						bi, isB := u.Call.Value.(*ssa.Builtin)
						private = private && isB && (bi.Name() == "len" || bi.Name() == "delete")
					default:
						private = false
					}
				}
				if private {
					ft.privMaps[mm] = true
				}
			}
		}
	}
	var out []Term
	for v := range ft.privMaps {
		if ts, ok := ft.env[v]; ok && len(ts) == 1 {
			out = append(out, ts[0])
		}
	}
	sort.Strings(out)
	return out
}

// pathStep is a step into a struct datatype or SMT array value.
type pathStep struct {
	field  bool
	sname  string // struct datatype name (for field steps)
	st     *types.Struct
	findex int
	idx    Term // for index steps
}

// Loc is a symbolic memory location.
type Loc struct {
	key  string // heap key; "" for an object (struct-by-ref) location
	idx  []Term
	path []pathStep
	typ  types.Type // Go type stored at the location
	obj  Term       // for object locations: the Ref
	sl   Term       // slice element locations: the slice value
	si   Term       // ... and the index (reads go through the at! function to give quantifiers clean triggers)
}

// atFun declares the element-read function of an element heap: at!S(E, s, i) = E[base s][off s + i].
func (ft *FT) atFun(key string) string {
	hs := ft.heaps[key].sort
	es := strings.TrimSuffix(strings.TrimPrefix(hs, "(Array Int (Array Int "), "))")
	name := "at!" + strings.TrimPrefix(key, "E!")
	if !ft.d.have["fun "+name] {
		ft.d.fun(name, []Sort{hs, "Slice", "Int"}, es)
		ft.d.axiom("def "+name, fmt.Sprintf("(forall ((E %s) (s Slice) (i Int)) (! (= (%s E s i) (select (select E (sl-base s)) (+ (sl-off s) i))) :pattern ((%s E s i))))", hs, q(name), q(name)))
	}
	return q(name)
}

func (ft *FT) loadPath(root Term, path []pathStep) Term {
	t := root
	for _, p := range path {
		if p.field {
			t = app(fieldAcc(p.sname, p.findex, p.st.Field(p.findex).Name()), t)
		} else {
			t = app("select", t, p.idx)
		}
	}
	return t
}

func (ft *FT) storePath(root Term, path []pathStep, v Term) Term {
	if len(path) == 0 {
		return v
	}
	p := path[0]
	if p.field {
		cur := app(fieldAcc(p.sname, p.findex, p.st.Field(p.findex).Name()), root)
		nv := ft.storePath(cur, path[1:], v)
		var args []Term
		for i := 0; i < p.st.NumFields(); i++ {
			if i == p.findex {
				args = append(args, nv)
			} else {
				args = append(args, app(fieldAcc(p.sname, i, p.st.Field(i).Name()), root))
			}
		}
		return app(q("mk!"+p.sname), args...)
	}
	cur := app("select", root, p.idx)
	nv := ft.storePath(cur, path[1:], v)
	return app("store", root, p.idx, nv)
}

// fieldKey names the per-field heap of a struct type.
func fieldKey(owner types.Type, f *types.Var) string {
	return "F!" + typeKeyName(owner) + "." + f.Name()
}

func (ft *FT) structOf(t types.Type) (*types.Struct, bool) {
	st, ok := t.Underlying().(*types.Struct)
	return st, ok
}

// load reads the value at loc in st.
func (ft *FT) load(st *State, l *Loc) Term {
	if l.key == "" {
		// whole struct through a Ref
		stt, _ := ft.structOf(l.typ)
		sname := ft.d.structName(l.typ)
		ft.d.sortOf(l.typ)
		if stt.NumFields() == 0 {
			return q("mk!" + sname)
		}
		var args []Term
		for i := 0; i < stt.NumFields(); i++ {
			f := stt.Field(i)
			k := fieldKey(l.typ, f)
			ft.keySort(k, arraySort("Int", ft.d.sortOf(f.Type())))
			args = append(args, sel(ft.get(st, k), l.obj))
		}
		return ft.loadPath(app(q("mk!"+sname), args...), l.path)
	}
	if l.sl != "" {
		return ft.loadPath(app(ft.atFun(l.key), ft.get(st, l.key), l.sl, l.si), l.path)
	}
	root := sel(ft.get(st, l.key), l.idx...)
	return ft.loadPath(root, l.path)
}

// store writes v at loc.
func (ft *FT) store(st *State, l *Loc, v Term) {
	if l.key == "" {
		stt, _ := ft.structOf(l.typ)
		sname := ft.d.structName(l.typ)
		ft.d.sortOf(l.typ)
		if len(l.path) > 0 {
			whole := ft.load(st, &Loc{typ: l.typ, obj: l.obj})
			v = ft.storePath(whole, l.path, v)
		}
		for i := 0; i < stt.NumFields(); i++ {
			f := stt.Field(i)
			k := fieldKey(l.typ, f)
			ft.keySort(k, arraySort("Int", ft.d.sortOf(f.Type())))
			ft.set(st, k, app("store", ft.get(st, k), l.obj, app(fieldAcc(sname, i, f.Name()), v)))
		}
		return
	}
	cur := ft.get(st, l.key)
	if len(l.path) == 0 {
		ft.set(st, l.key, sto(cur, l.idx, v))
		return
	}
	root := sel(cur, l.idx...)
	if len(l.idx) == 0 {
		// struct-valued cell: name each intermediate value, otherwise field-by-field initialisation
		// of a composite literal grows exponentially
		nv := ft.nameTerm("sv", ft.heaps[l.key].sort, ft.storePath(root, l.path, v))
		ft.set(st, l.key, nv)
		return
	}
	ft.set(st, l.key, sto(cur, l.idx, ft.storePath(root, l.path, v)))
}

// keysOfLoc: the heap keys a store to loc writes.
func (ft *FT) keysOfLoc(l *Loc) []string {
	if l.key != "" {
		return []string{l.key}
	}
	stt, _ := ft.structOf(l.typ)
	var ks []string
	for i := 0; i < stt.NumFields(); i++ {
		ks = append(ks, fieldKey(l.typ, stt.Field(i)))
	}
	return ks
}

func (ft *FT) frozenTypes() []string {
	pkg := ft.fnPkg()
	if pkg == nil {
		return nil
	}
	var out []string
	for _, d := range ft.eng.cons.Decls[pkgKey(pkg)] {
		f := strings.Fields(d)
		if len(f) == 2 && f[0] == "frozen" {
			out = append(out, f[1])
			ft.note("decl frozen " + f[1] + ": values of this type are assumed never to be written after construction")
		}
	}
	return out
}
