package main

import (
	"fmt"
	"go/ast"
	"go/constant"
	"go/parser"
	"go/token"
	"go/types"
	"sort"
	"strings"

	"golang.org/x/tools/go/ssa"
)

// Obl is one proof obligation of a function.
type Obl struct {
	Name     string
	Kind     string
	Text     string // source text it is about
	Guard    Term
	Goal     Term
	NAssert  int
	Pos      token.Pos
	Required bool
	Cover    bool // reachability cover: expected SAT
	Extra    []string
}

type deferRec struct {
	flagKey string
	common  *ssa.CallCommon
	args    []Term
	instr   *ssa.Defer
}

type loopInfo struct {
	header    *ssa.BasicBlock
	ordinal   int
	body      map[*ssa.BasicBlock]bool
	con       *LoopContract
	preState  *State
	headState *State
	headOv    map[ssa.Value]Term
	entryGd   Term
	wkeys     map[string]bool
	wall      bool
	variant   Term
	entryOv   map[ssa.Value]Term // header phis on the entering edge (for pre(...) in invariants)
	heldPre   Term               // HELD at loop entry (lock discipline: iterations are lock-balanced)
}

// FT translates one SSA function into a passive-form VC and its obligations.
type FT struct {
	assertLines map[*Clause][]int
	assertFired map[string]bool
	eng         *Engine
	fn          *ssa.Function
	key         string
	con         *FuncContract
	d           *Decls
	heaps       map[string]*heapInfo
	asserts     []string
	obls        []*Obl
	ctr         int
	env         map[ssa.Value][]Term
	privMaps    map[ssa.Value]bool // maps made here that never escape (see privateMaps)
	ghostLines  map[*GhostUpdate][]int
	ghostFired  map[string]bool
	locs        map[ssa.Value]*Loc
	guard       map[*ssa.BasicBlock]Term
	out         map[*ssa.BasicBlock]*State
	edge        map[[2]int]Term
	loops       map[*ssa.BasicBlock]*loopInfo
	entry       *State
	defers      []*deferRec
	notes       map[string]bool
	errs        []string
	oblSeen     map[string]int
	ghostIn     map[string]Term
	curBlk      *ssa.BasicBlock
	held        map[string]bool
	stateNow    *State
	afterLock   *State
	dynSelf     *SpecVal
	nonFresh    map[string]bool
	fnWrites    map[string]bool
	fnWritesAll bool
	bridged     map[string]bool
	curGuard    Term
	unwinding   bool
}

func (ft *FT) note(s string) { ft.notes[s] = true }
func (ft *FT) errf(format string, a ...any) {
	ft.errs = append(ft.errs, fmt.Sprintf(format, a...))
}

func (ft *FT) assume(guard Term, t Term) {
	if t == "true" {
		return
	}
	ft.asserts = append(ft.asserts, "(assert "+implies(guard, t)+")")
}

func (ft *FT) fresh(prefix string, s Sort) Term {
	ft.ctr++
	n := fmt.Sprintf("%s!%d", prefix, ft.ctr)
	ft.d.cnst(n, s)
	return q(n)
}

func (ft *FT) srcText(pos token.Pos) string {
	if !pos.IsValid() {
		return ""
	}
	p := ft.eng.fset.Position(pos)
	line := ft.eng.fileLine(p.Filename, p.Line)
	return strings.TrimSpace(line)
}

func (ft *FT) oblige(kind string, pos token.Pos, text string, guard, goal Term, required bool) *Obl {
	if text == "" {
		text = ft.srcText(pos)
	}
	base := fmt.Sprintf("%s#%s:%q", ft.key, kind, text)
	ft.oblSeen[base]++
	name := base
	if n := ft.oblSeen[base]; n > 1 {
		name = fmt.Sprintf("%s#%d", base, n)
	}
	o := &Obl{Name: name, Kind: kind, Text: text, Guard: guard, Goal: goal, NAssert: len(ft.asserts), Pos: pos, Required: required}
	if goal == "true" || guard == "false" {
		// trivially discharged; still recorded
	}
	ft.obls = append(ft.obls, o)
	// assert-then-assume; an obligation recorded as a known finding is known NOT to hold, so assuming
	// it would make everything after it vacuous and hide other violations
	if !ft.eng.known[name] {
		ft.assume(guard, goal)
	}
	return o
}

func (ft *FT) safety(kind string, pos token.Pos, guard, goal Term) {
	if goal == "true" {
		return
	}
	ft.oblige(kind, pos, "", guard, goal, ft.con != nil && ft.con.Strict)
}

// ---------------------------------------------------------------------------------------
// values

func (ft *FT) typeInv(t Term, typ types.Type, st *State) Term {
	if isOpaqueInt(typ) {
		return "true"
	}
	switch u := typ.Underlying().(type) {
	case *types.Basic:
		if lo, hi, _, ok := intRange(typ); ok {
			return and(app("<=", lo, t), app("<=", t, hi))
		}
	case *types.Pointer, *types.Map, *types.Chan, *types.Signature:
		nx := ft.get(st, "$next")
		return and(app("<=", "0", t), app("<", t, nx))
	case *types.Slice:
		nx := ft.get(st, "$next")
		return and(app("<=", "0", app("sl-base", t)), app("<", app("sl-base", t), nx),
			app("<=", "0", app("sl-off", t)), app("<=", "0", app("sl-len", t)), app("<=", app("sl-len", t), app("sl-cap", t)),
			app("<=", app("sl-cap", t), "1152921504606846976"), app("<=", app("sl-off", t), "1152921504606846976"),
			implies(eq(app("sl-base", t), "0"), eq(app("sl-cap", t), "0")))
	case *types.Struct:
		_ = u
	}
	return "true"
}

func (ft *FT) constTerm(c *ssa.Const) Term {
	t := c.Type()
	if c.Value == nil {
		return ft.d.zero(t)
	}
	switch c.Value.Kind() {
	case constant.Bool:
		if constant.BoolVal(c.Value) {
			return "true"
		}
		return "false"
	case constant.String:
		lit := ft.d.strLit(constant.StringVal(c.Value))
		ft.litFact(lit)
		return lit
	case constant.Int:
		if b, ok := t.Underlying().(*types.Basic); ok && b.Info()&types.IsFloat != 0 {
			return ft.floatLit(c.Value)
		}
		s := c.Value.ExactString()
		if strings.HasPrefix(s, "-") {
			return "(- " + s[1:] + ")"
		}
		return s
	case constant.Float:
		if b, ok := t.Underlying().(*types.Basic); ok && b.Info()&types.IsInteger != 0 {
			if iv := constant.ToInt(c.Value); iv.Kind() == constant.Int {
				s := iv.ExactString()
				if strings.HasPrefix(s, "-") {
					return "(- " + s[1:] + ")"
				}
				return s
			}
		}
		return ft.floatLit(c.Value)
	}
	return ft.fresh("const", ft.d.sortOf(t))
}

func (ft *FT) floatLit(v constant.Value) Term {
	s := v.ExactString()
	if constant.Sign(v) == 0 {
		return "f64!zero"
	}
	name := "f64!lit!" + s
	ft.d.cnst(name, "F64")
	return q(name)
}

// val returns the term of a non-tuple SSA value.
func (ft *FT) val(v ssa.Value) Term {
	if ts, ok := ft.env[v]; ok {
		if len(ts) != 1 {
			panic("tuple value used as scalar: " + v.Name())
		}
		return ts[0]
	}
	switch x := v.(type) {
	case *ssa.Const:
		return ft.constTerm(x)
	case *ssa.Global:
		name := "g!" + x.Pkg.Pkg.Name() + "." + x.Name()
		ft.d.cnst(name, "Int")
		ft.d.axiom("gpos "+name, app(">", q(name), "0"))
		return q(name)
	case *ssa.Function:
		name := "fn!" + normName(x.String())
		ft.d.cnst(name, "Int")
		ft.d.axiom("fnpos "+name, app(">", q(name), "0"))
		return q(name)
	case *ssa.Builtin:
		return "0"
	case *ssa.FieldAddr, *ssa.IndexAddr:
		// materialised interior pointer
		l := ft.locs[v]
		if l != nil {
			return ft.materialize(v, l)
		}
	}
	panic(fmt.Sprintf("no value for %s (%T) in %s", v.Name(), v, ft.key))
}

func (ft *FT) materialize(v ssa.Value, l *Loc) Term {
	var args []Term
	var sorts []Sort
	if l.key == "" {
		return l.obj
	}
	args = append(args, l.idx...)
	for range l.idx {
		sorts = append(sorts, "Int")
	}
	name := "addr!" + l.key
	for _, p := range l.path {
		if p.field {
			name += "." + p.st.Field(p.findex).Name()
		} else {
			name += "[]"
			args = append(args, p.idx)
			sorts = append(sorts, "Int")
		}
	}
	ft.d.fun(name, sorts, "Int")
	ft.d.axiom("addrpos "+name, func() Term {
		if len(sorts) == 0 {
			return app(">", q(name), "0")
		}
		var vs [][2]string
		var as []Term
		for i, s := range sorts {
			n := fmt.Sprintf("a%d", i)
			vs = append(vs, [2]string{n, s})
			as = append(as, n)
		}
		return forall(vs, "(! "+app(">", app(q(name), as...), "0")+" :pattern ("+app(q(name), as...)+"))")
	}())
	// addresses of different fields are different: every address function carries its own tag
	ft.d.fun("addrtag", []Sort{"Int"}, "Int")
	tag := num(int64(ft.d.typeID(types.NewNamed(types.NewTypeName(0, nil, name, nil), types.Typ[types.Int], nil))))
	ft.d.axiom("addrtag "+name, func() Term {
		if len(sorts) == 0 {
			return eq(app("addrtag", q(name)), tag)
		}
		var vs [][2]string
		var as []Term
		for i, s := range sorts {
			n := fmt.Sprintf("a%d", i)
			vs = append(vs, [2]string{n, s})
			as = append(as, n)
		}
		return forall(vs, "(! "+eq(app("addrtag", app(q(name), as...)), tag)+" :pattern ("+app(q(name), as...)+"))")
	}())
	ft.bridgeInterior(name, l)
	return app(q(name), args...)
}

// bridgeInterior: a pointer to an element of a slice of structs (&s[i]) that escapes into a value is read through
// the per-field heaps F!T.f, the element itself lives in the row heap E!S!T. In the heap the function starts from the
// two views are the same memory: F!T.f[&s[i]] == s[i].f. The fact is stated for the entry versions only, and only in
// functions that (syntactically, callees included) write neither view - there the entry versions are the only ones,
// so a read through the pointer sees the element. Functions that write one of the views get no bridge (reads through
// such pointers stay unconstrained, as before).
func (ft *FT) bridgeInterior(addrFn string, l *Loc) {
	if !strings.HasPrefix(l.key, "E!") || len(l.idx) != 2 || len(l.path) != 0 || isOpaqueInt(l.typ) {
		return
	}
	stt, ok := ft.structOf(l.typ)
	if !ok || stt.NumFields() == 0 {
		return
	}
	if ft.fnWrites == nil {
		saved := ft.nonFresh
		ft.nonFresh = map[string]bool{}
		all := map[*ssa.BasicBlock]bool{}
		for _, b := range ft.fn.Blocks {
			all[b] = true
		}
		ft.fnWrites, ft.fnWritesAll = ft.writtenKeys(all)
		ft.nonFresh = saved
	}
	if ft.fnWritesAll || ft.fnWrites[l.key] {
		return
	}
	sname := ft.d.structName(l.typ)
	ft.d.sortOf(l.typ)
	for i := 0; i < stt.NumFields(); i++ {
		f := stt.Field(i)
		k := fieldKey(l.typ, f)
		if ft.fnWrites[k] || ft.bridged[addrFn+"|"+k] {
			continue
		}
		if ft.bridged == nil {
			ft.bridged = map[string]bool{}
		}
		ft.bridged[addrFn+"|"+k] = true
		ft.keySort(k, arraySort("Int", ft.d.sortOf(f.Type())))
		lhs := sel(ft.get(ft.entry, k), app(q(addrFn), "b", "i"))
		rhs := app(fieldAcc(sname, i, f.Name()), sel(ft.get(ft.entry, l.key), "b", "i"))
		ft.assume("true", forall([][2]string{{"b", "Int"}, {"i", "Int"}}, "(! "+eq(lhs, rhs)+" :pattern ("+app(q(addrFn), "b", "i")+"))"))
		ft.note("interior pointers into " + l.key + " read through " + k + ": entry-state views bridged (function writes neither)")
	}
}

func (ft *FT) setVal(v ssa.Value, ts ...Term) { ft.env[v] = ts }

// define names a term with a fresh constant (keeps formulas DAG-like).
func (ft *FT) define(v ssa.Value, t Term) Term {
	s := ft.d.sortOf(v.Type())
	name := "v!" + v.Name()
	if _, dup := ft.d.have["fun "+name]; dup {
		ft.ctr++
		name = fmt.Sprintf("v!%s!%d", v.Name(), ft.ctr)
	}
	ft.d.cnst(name, s)
	ft.asserts = append(ft.asserts, "(assert "+eq(q(name), t)+")")
	ft.env[v] = []Term{q(name)}
	return q(name)
}

func (ft *FT) defineFresh(v ssa.Value, st *State, guard Term) Term {
	s := ft.d.sortOf(v.Type())
	t := ft.fresh("v!"+v.Name(), s)
	ft.env[v] = []Term{t}
	ft.assume("true", ft.typeInv(t, v.Type(), st))
	return t
}

// ---------------------------------------------------------------------------------------
// locations

func deref(t types.Type) types.Type {
	if p, ok := t.Underlying().(*types.Pointer); ok {
		return p.Elem()
	}
	return t
}

func (ft *FT) cellKey(elem types.Type) string {
	s := ft.d.sortOf(elem)
	k := "C!" + s
	ft.keySort(k, arraySort("Int", s))
	return k
}

func (ft *FT) elemKey(elem types.Type) string {
	s := ft.d.sortOf(elem)
	k := "E!" + s
	ft.keySort(k, arraySort("Int", arraySort("Int", s)))
	return k
}

// locOf returns the location a pointer-typed SSA value designates.
func (ft *FT) locOf(v ssa.Value) *Loc {
	if l, ok := ft.locs[v]; ok {
		return l
	}
	elem := deref(v.Type())
	if _, ok := elem.Underlying().(*types.Struct); ok && !isOpaqueInt(elem) {
		return &Loc{typ: elem, obj: ft.val(v)}
	}
	if _, ok := elem.Underlying().(*types.Array); ok {
		// pointer to array: the array lives in the element heap under its Ref
		at := elem.Underlying().(*types.Array)
		k := ft.elemKey(at.Elem())
		return &Loc{key: k, idx: []Term{ft.val(v)}, typ: elem}
	}
	if g, ok := v.(*ssa.Global); ok {
		k := "V!" + g.Pkg.Pkg.Name() + "." + g.Name()
		ft.keySort(k, ft.d.sortOf(elem))
		return &Loc{key: k, typ: elem}
	}
	return &Loc{key: ft.cellKey(elem), idx: []Term{ft.val(v)}, typ: elem}
}

func (ft *FT) fieldLoc(base ssa.Value, fi int) *Loc {
	bl := ft.locOf(base)
	stt, ok := ft.structOf(bl.typ)
	if !ok {
		panic("FieldAddr on non-struct " + bl.typ.String())
	}
	f := stt.Field(fi)
	if bl.key == "" && len(bl.path) == 0 {
		k := fieldKey(bl.typ, f)
		ft.keySort(k, arraySort("Int", ft.d.sortOf(f.Type())))
		return &Loc{key: k, idx: []Term{bl.obj}, typ: f.Type()}
	}
	ft.d.sortOf(bl.typ)
	np := append(append([]pathStep{}, bl.path...), pathStep{field: true, sname: ft.d.structName(bl.typ), st: stt, findex: fi})
	return &Loc{key: bl.key, idx: bl.idx, path: np, typ: f.Type(), obj: bl.obj}
}

// ---------------------------------------------------------------------------------------
// control flow

func (ft *FT) computeLoops() {
	fn := ft.fn
	ft.loops = map[*ssa.BasicBlock]*loopInfo{}
	for _, b := range fn.Blocks {
		for _, s := range b.Succs {
			if s.Dominates(b) {
				li := ft.loops[s]
				if li == nil {
					li = &loopInfo{header: s, body: map[*ssa.BasicBlock]bool{s: true}, wkeys: map[string]bool{}}
					ft.loops[s] = li
				}
				// natural loop of back edge b->s
				stack := []*ssa.BasicBlock{b}
				for len(stack) > 0 {
					x := stack[len(stack)-1]
					stack = stack[:len(stack)-1]
					if li.body[x] {
						continue
					}
					li.body[x] = true
					stack = append(stack, x.Preds...)
				}
			}
		}
	}
	var hs []*ssa.BasicBlock
	for h := range ft.loops {
		hs = append(hs, h)
	}
	sort.Slice(hs, func(i, j int) bool { return hs[i].Index < hs[j].Index })
	for i, h := range hs {
		li := ft.loops[h]
		li.ordinal = i + 1
		if ft.con != nil {
			li.con = ft.con.Loops[i+1]
		}
	}
}

func (ft *FT) isBackEdge(from, to *ssa.BasicBlock) bool {
	return to.Dominates(from)
}

func (ft *FT) rpo() []*ssa.BasicBlock {
	seen := map[*ssa.BasicBlock]bool{}
	var post []*ssa.BasicBlock
	var dfs func(b *ssa.BasicBlock)
	dfs = func(b *ssa.BasicBlock) {
		seen[b] = true
		for _, s := range b.Succs {
			if ft.isBackEdge(b, s) || seen[s] {
				continue
			}
			dfs(s)
		}
		post = append(post, b)
	}
	dfs(ft.fn.Blocks[0])
	for i, j := 0, len(post)-1; i < j; i, j = i+1, j-1 {
		post[i], post[j] = post[j], post[i]
	}
	return post
}

// mergeStates merges predecessor states under their edge conditions.
func (ft *FT) mergeStates(conds []Term, sts []*State, tag string) *State {
	if len(sts) == 1 {
		return sts[0].clone()
	}
	sameEpoch := true
	for _, s := range sts[1:] {
		if s.epoch != sts[0].epoch {
			sameEpoch = false
		}
	}
	res := &State{m: map[string]Term{}, epoch: sts[0].epoch}
	if !sameEpoch {
		ft.ctr++
		res.epoch = ft.ctr
	}
	keys := map[string]bool{}
	for _, s := range sts {
		for k := range s.m {
			keys[k] = true
		}
	}
	if !sameEpoch {
		keys["$next"] = true
	}
	for _, k := range sortedKeys(keys) {
		terms := make([]Term, len(sts))
		same := true
		for i, s := range sts {
			terms[i] = ft.get(s, k)
			if terms[i] != terms[0] {
				same = false
			}
		}
		if same {
			res.m[k] = terms[0]
			continue
		}
		ft.ctr++
		name := fmt.Sprintf("%s@m%d", k, ft.ctr)
		ft.d.cnst(name, ft.heaps[k].sort)
		for i := range sts {
			ft.assume(conds[i], eq(q(name), terms[i]))
		}
		res.m[k] = q(name)
	}
	return res
}

func (ft *FT) edgeCond(from, to *ssa.BasicBlock) Term {
	return ft.edge[[2]int{from.Index, to.Index}]
}

// writtenKeys computes (syntactically) the heap keys a set of blocks may write.
func (ft *FT) writtenKeys(blocks map[*ssa.BasicBlock]bool) (map[string]bool, bool) {
	keys := map[string]bool{}
	all := false
	for b := range blocks {
		for _, ins := range b.Instrs {
			switch x := ins.(type) {
			case *ssa.Store:
				fresh := storeRootFreshIn(x.Addr, blocks)
				for _, k := range ft.keysOfAddr(x.Addr) {
					keys[k] = true
					if !fresh {
						ft.nonFresh[k] = true
					}
				}
			case *ssa.MapUpdate:
				mt := x.Map.Type().Underlying().(*types.Map)
				mm, isFresh := x.Map.(*ssa.MakeMap)
				for _, k := range ft.mapKeys(mt) {
					keys[k] = true
					if !(isFresh && blocks[mm.Block()]) {
						ft.nonFresh[k] = true
					}
				}
			case *ssa.Alloc, *ssa.MakeMap, *ssa.MakeSlice, *ssa.MakeChan, *ssa.MakeClosure:
				keys["$next"] = true
				if a, ok := x.(*ssa.Alloc); ok {
					for _, k := range ft.keysOfAddr(a) {
						keys[k] = true
					}
				}
				if mm, ok := x.(*ssa.MakeMap); ok {
					for _, k := range ft.mapKeys(mm.Type().Underlying().(*types.Map)) {
						keys[k] = true
					}
				}
				if ms, ok := x.(*ssa.MakeSlice); ok {
					keys[ft.elemKey(ms.Type().Underlying().(*types.Slice).Elem())] = true
				}
			case *ssa.Range:
				keys[ft.visKey(x)] = true
			case *ssa.Next:
				if r, ok := x.Iter.(*ssa.Range); ok {
					keys[ft.visKey(r)] = true
				}
			case *ssa.Defer:
				keys[ft.deferKey(x)] = true
			case ssa.CallInstruction:
				if _, isGo := x.(*ssa.Go); isGo {
					continue
				}
				ks, a := ft.callWrites(x.Common())
				if a {
					all = true
				}
				// a callee under contract with a modifies clause: at the call its declared frame is applied (memory
				// that existed before the call and is not named in the clause is unchanged - the callee's own frame
				// obligations prove it), so in the loop summary the keys it writes only in objects of its own stay fresh
				declared, hasDecl := ft.declaredFrameKeys(x.Common())
				for _, k := range ks {
					keys[k] = true
					if k != "$next" && !(hasDecl && !declared[k]) {
						ft.nonFresh[k] = true
					}
				}
			}
		}
	}
	return keys, all
}

// storeRootFreshIn: the store goes into an object allocated inside the given blocks (e.g. the
// array that packages variadic arguments), so it cannot affect memory that existed before them.
func storeRootFreshIn(addr ssa.Value, blocks map[*ssa.BasicBlock]bool) bool {
	for {
		switch a := addr.(type) {
		case *ssa.FieldAddr:
			addr = a.X
		case *ssa.IndexAddr:
			addr = a.X
		case *ssa.Alloc:
			return blocks[a.Block()]
		case *ssa.MakeSlice:
			return blocks[a.Block()]
		default:
			return false
		}
	}
}

func (ft *FT) visKey(r *ssa.Range) string {
	mt, ok := r.X.Type().Underlying().(*types.Map)
	k := "VIS!" + r.Name()
	if ok {
		ft.keySort(k, arraySort(ft.d.sortOf(mt.Key()), "Bool"))
	} else {
		ft.keySort(k, "Int")
	}
	return k
}

func (ft *FT) deferKey(x *ssa.Defer) string {
	k := fmt.Sprintf("D!%d.%d", x.Block().Index, indexInBlock(x))
	ft.keySort(k, "Bool")
	return k
}

func indexInBlock(ins ssa.Instruction) int {
	for i, x := range ins.Block().Instrs {
		if x == ins {
			return i
		}
	}
	return -1
}

func (ft *FT) mapKeys(mt *types.Map) []string {
	ks, vs := ft.d.sortOf(mt.Key()), ft.d.sortOf(mt.Elem())
	// one heap family per (underlying) Go map type, so that maps of different types never share a frame
	tn := typeKeyName(types.NewMap(mt.Key(), mt.Elem()))
	md := "MD!" + tn
	mv := "MV!" + tn
	ml := "ML!" + tn
	ft.keySort(md, arraySort("Int", arraySort(ks, "Bool")))
	ft.keySort(mv, arraySort("Int", arraySort(ks, vs)))
	ft.keySort(ml, arraySort("Int", "Int"))
	return []string{md, mv, ml}
}

// keysOfAddr: keys written by a store through addr (syntactic; no terms needed).
func (ft *FT) keysOfAddr(addr ssa.Value) []string {
	switch a := addr.(type) {
	case *ssa.FieldAddr:
		bt := deref(a.X.Type())
		// find root
		root := a.X
		_ = root
		switch bx := a.X.(type) {
		case *ssa.FieldAddr, *ssa.IndexAddr:
			return ft.keysOfAddr(bx)
		}
		if l, ok := ft.locs[a.X]; ok && l.key != "" {
			return []string{l.key}
		}
		if al, ok := a.X.(*ssa.Alloc); ok && ft.privateAlloc(al) {
			return []string{ft.privKey(al)}
		}
		stt, _ := ft.structOf(bt)
		f := stt.Field(a.Field)
		k := fieldKey(bt, f)
		ft.keySort(k, arraySort("Int", ft.d.sortOf(f.Type())))
		return []string{k}
	case *ssa.IndexAddr:
		switch xt := a.X.Type().Underlying().(type) {
		case *types.Slice:
			return []string{ft.elemKey(xt.Elem())}
		case *types.Pointer:
			if inner, ok := a.X.(*ssa.FieldAddr); ok {
				return ft.keysOfAddr(inner)
			}
			at := xt.Elem().Underlying().(*types.Array)
			return []string{ft.elemKey(at.Elem())}
		}
	case *ssa.Alloc:
		if ft.privateAlloc(a) {
			return []string{ft.privKey(a)}
		}
	case *ssa.Global:
		elem := deref(a.Type())
		k := "V!" + a.Pkg.Pkg.Name() + "." + a.Name()
		ft.keySort(k, ft.d.sortOf(elem))
		return []string{k}
	}
	elem := deref(addr.Type())
	if stt, ok := elem.Underlying().(*types.Struct); ok && !isOpaqueInt(elem) {
		var ks []string
		for i := 0; i < stt.NumFields(); i++ {
			k := fieldKey(elem, stt.Field(i))
			ft.keySort(k, arraySort("Int", ft.d.sortOf(stt.Field(i).Type())))
			ks = append(ks, k)
		}
		return ks
	}
	if at, ok := elem.Underlying().(*types.Array); ok {
		return []string{ft.elemKey(at.Elem())}
	}
	return []string{ft.cellKey(elem)}
}

// privateAlloc: an Alloc of a non-struct, non-array cell whose address never escapes.
func (ft *FT) privateAlloc(a *ssa.Alloc) bool {
	elem := deref(a.Type())
	if _, ok := elem.Underlying().(*types.Array); ok {
		return false
	}
	refs := a.Referrers()
	if refs == nil {
		return false
	}
	var ok func(v ssa.Value, refs []ssa.Instruction) bool
	ok = func(v ssa.Value, refs []ssa.Instruction) bool {
		for _, r := range refs {
			switch x := r.(type) {
			case *ssa.UnOp:
				if x.Op != token.MUL {
					return false
				}
			case *ssa.Store:
				if x.Addr != v {
					return false
				}
			case *ssa.DebugRef:
			case *ssa.MakeClosure:
				// captured by a closure of this very function: still invisible to any other code
				// (calls of that closure re-havoc the cell if the closure assigns it)
			case *ssa.FieldAddr:
				if x.X != v || x.Referrers() == nil || !ok(x, *x.Referrers()) {
					return false
				}
			default:
				return false
			}
		}
		return true
	}
	return ok(a, *refs)
}

func (ft *FT) privKey(a *ssa.Alloc) string {
	k := "L!" + a.Name()
	ft.keySort(k, ft.d.sortOf(deref(a.Type())))
	return k
}

// ---------------------------------------------------------------------------------------
// main translation

func (ft *FT) run() {
	fn := ft.fn
	defer func() {
		if r := recover(); r != nil {
			ft.errf("translator panic: %v", r)
		}
	}()
	ft.keySort("$next", "Int")
	ft.computeLoops()
	ft.entry = &State{m: map[string]Term{}, epoch: 0}
	st0 := ft.entry.clone()
	ft.assume("true", app("<", "0", ft.get(st0, "$next")))
	// no deferred call is registered at entry
	for _, b := range fn.Blocks {
		for _, ins := range b.Instrs {
			if d, ok := ins.(*ssa.Defer); ok {
				ft.set(st0, ft.deferKey(d), "false")
			}
		}
	}
	// parameters and free variables
	for _, p := range fn.Params {
		name := "p!" + p.Name()
		ft.d.cnst(name, ft.d.sortOf(p.Type()))
		ft.env[p] = []Term{q(name)}
		ft.assume("true", ft.typeInv(q(name), p.Type(), st0))
	}
	for _, fv := range fn.FreeVars {
		name := "fv!" + fv.Name()
		ft.d.cnst(name, ft.d.sortOf(fv.Type()))
		ft.env[fv] = []Term{q(name)}
		ft.assume("true", ft.typeInv(q(name), fv.Type(), st0))
		if _, ok := fv.Type().Underlying().(*types.Pointer); ok {
			ft.assume("true", app("<", "0", q(name)))
		}
	}
	// receiver of a pointer method is commonly non-nil only by contract; nothing assumed.
	ft.emitAxioms(st0)
	// preconditions
	if ft.con != nil {
		ctx := ft.specCtx(st0, st0)
		for _, r := range ft.con.Requires {
			t, err := ctx.boolExpr(r.Expr)
			if err != nil {
				ft.errf("requires %q: %v", r.Text, err)
				continue
			}
			ft.assume("true", t)
		}
	}
	// lock discipline: a function under contract is entered without the mutexes of its parameters held by
	// the calling goroutine, unless its contract says otherwise (a `held...` precondition or `holdslock`).
	// Justified by the lock-reentry@call obligation at every call site inside verified code; callers
	// outside the package cannot hold an unexported mutex.
	if ft.lockDiscipline() {
		ctx := ft.specCtx(st0, st0)
		for _, txt := range paramMutexes(fn) {
			if l, ok := ft.lockExprTerm(ctx, txt); ok {
				ft.assume("true", eq(app("select", ft.get(st0, heldKey(ft)), l), "0"))
			}
		}
	}
	order := ft.rpo()
	for _, b := range order {
		ft.block(b, st0)
	}
	// a pointer held by an interface-typed parameter refers to an object that existed at entry
	// (stated last, as axioms, because the pointer types boxed are only known after translation)
	next0 := ft.get(st0, "$next")
	var ifaceParams []Term
	for _, p := range fn.Params {
		if isIface(p.Type()) {
			ifaceParams = append(ifaceParams, ft.env[p][0])
		}
	}
	for _, fv := range fn.FreeVars {
		if isIface(fv.Type()) {
			ifaceParams = append(ifaceParams, ft.env[fv][0])
		}
	}
	for _, v := range ifaceParams {
		for _, pb := range ft.d.ptrBoxes {
			u := app(pb.unbox, v)
			ft.d.axiom("ifaceparam "+v+" "+pb.unbox, implies(eq(app("dyn", v), num(int64(pb.id))), and(app("<=", "0", u), app("<", u, next0))))
		}
	}
}

func (ft *FT) block(b *ssa.BasicBlock, st0 *State) {
	ft.curBlk = b
	var st *State
	var guard Term
	phiVals := map[*ssa.Phi]Term{}
	if b.Index == 0 {
		st = st0
		guard = "true"
	} else {
		var conds []Term
		var sts []*State
		var preds []*ssa.BasicBlock
		for _, p := range b.Preds {
			if ft.isBackEdge(p, b) {
				continue
			}
			if _, done := ft.out[p]; !done {
				continue
			}
			c := ft.edgeCond(p, b)
			if c == "" || c == "false" {
				continue
			}
			conds = append(conds, c)
			sts = append(sts, ft.out[p])
			preds = append(preds, p)
		}
		if len(conds) == 0 {
			// unreachable in the cut CFG (e.g. recover block)
			ft.guard[b] = "false"
			ft.out[b] = st0.clone()
			for _, s := range b.Succs {
				ft.edge[[2]int{b.Index, s.Index}] = "false"
			}
			return
		}
		g := or(conds...)
		if len(conds) > 1 {
			gn := ft.fresh(fmt.Sprintf("g!b%d", b.Index), "Bool")
			ft.asserts = append(ft.asserts, "(assert "+eq(gn, g)+")")
			g = gn
		}
		guard = g
		st = ft.mergeStates(conds, sts, fmt.Sprintf("b%d", b.Index))
		// phis
		for _, ins := range b.Instrs {
			phi, ok := ins.(*ssa.Phi)
			if !ok {
				break
			}
			var vals []Term
			for _, p := range preds {
				for i, bp := range b.Preds {
					if bp == p {
						vals = append(vals, ft.val(phi.Edges[i]))
						break
					}
				}
			}
			same := true
			for _, v := range vals {
				if v != vals[0] {
					same = false
				}
			}
			if same {
				phiVals[phi] = vals[0]
			} else {
				t := ft.fresh("v!"+phi.Name(), ft.d.sortOf(phi.Type()))
				for i := range vals {
					ft.assume(conds[i], eq(t, vals[i]))
				}
				phiVals[phi] = t
			}
		}
	}
	if li := ft.loops[b]; li != nil {
		st, guard = ft.loopHead(li, st, guard, phiVals)
	} else {
		for phi, t := range phiVals {
			ft.env[phi] = []Term{t}
		}
	}
	ft.guard[b] = guard
	ft.curGuard = guard
	for _, ins := range b.Instrs {
		if _, ok := ins.(*ssa.Phi); ok {
			continue
		}
		ft.assertAt(ins, st)
		// curGuard shrinks after a call that may panic: the rest of the block runs only if it returned
		ft.instr(ins, st, ft.curGuard)
	}
	ft.out[b] = st
	// back edges: invariant preservation
	for _, s := range b.Succs {
		if ft.isBackEdge(b, s) {
			ft.loopBack(ft.loops[s], b, st)
		}
	}
}

func (ft *FT) loopHead(li *loopInfo, st *State, guard Term, phiVals map[*ssa.Phi]Term) (*State, Term) {
	b := li.header
	ov := map[ssa.Value]Term{}
	for phi, t := range phiVals {
		ov[phi] = t
	}
	li.preState = st.clone()
	li.entryGd = guard
	li.entryOv = ov
	// invariant on entry
	if li.con != nil {
		ctx := ft.loopCtx(li, st, ov, st)
		for _, inv := range li.con.Invariants {
			t, err := ctx.boolExpr(inv.Expr)
			if err != nil {
				ft.errf("loop %d invariant %q: %v", li.ordinal, inv.Text, err)
				continue
			}
			ft.oblige("inv-entry", b.Instrs[0].Pos(), fmt.Sprintf("loop %d: %s", li.ordinal, inv.Text), guard, t, true)
		}
	}
	// havoc
	ft.nonFresh = map[string]bool{}
	li.wkeys, li.wall = ft.writtenKeys(li.body)
	nonFresh := ft.nonFresh
	hs := st.clone()
	if li.wall {
		ft.havocAll(hs)
	} else {
		nextOld := ft.get(hs, "$next")
		for _, k := range sortedKeys(li.wkeys) {
			if ft.heaps[k] == nil {
				continue
			}
			old := ft.get(hs, k)
			nv := ft.freshVersion(hs, k)
			if !nonFresh[k] && strings.HasPrefix(ft.heaps[k].sort, "(Array Int ") && !privateKey(k) {
				// every write to k inside the loop goes to an object allocated inside the loop:
				// memory that existed at loop entry is untouched
				ft.assume("true", forall([][2]string{{"r", "Int"}}, "(! "+implies(app("<", "r", nextOld), eq(app("select", nv, "r"), app("select", old, "r")))+" :pattern ((select "+nv+" r)))"))
			}
		}
		if li.wkeys["$next"] {
			ft.assume("true", app("<=", nextOld, ft.get(hs, "$next")))
		}
	}
	hov := map[ssa.Value]Term{}
	for _, ins := range b.Instrs {
		phi, ok := ins.(*ssa.Phi)
		if !ok {
			break
		}
		t := ft.fresh("v!"+phi.Name(), ft.d.sortOf(phi.Type()))
		ft.env[phi] = []Term{t}
		hov[phi] = t
		ft.assume("true", ft.typeInv(t, phi.Type(), hs))
		if phi.Comment == "rangeindex" {
			// implicit invariant of every range-over-slice loop (go/ssa lowering: idx starts at -1, the header
			// computes idx+1 and compares it with the length taken before the loop): -1 <= idx <= len-1
			ft.assume("true", app("<=", "(- 1)", t))
			for _, hi := range b.Instrs {
				if cmp, ok := hi.(*ssa.BinOp); ok && cmp.Op == token.LSS {
					if inc, ok := cmp.X.(*ssa.BinOp); ok && inc.Op == token.ADD && inc.X == ssa.Value(phi) {
						if ts, ok := ft.env[cmp.Y]; ok && len(ts) == 1 {
							ft.assume("true", app("<=", t, app("-", ts[0], "1")))
						}
					}
				}
			}
		}
	}
	// lock discipline: an iteration leaves the locks as it found them (checked at every back edge)
	if ft.lockDiscipline() && !li.wall && li.wkeys["HELD"] && ft.heaps["HELD"] != nil {
		ft.assume(guard, eq(ft.get(hs, "HELD"), ft.get(st, "HELD")))
		li.heldPre = ft.get(st, "HELD")
	}
	li.headState = hs.clone()
	li.headOv = hov
	if ft.con != nil && ft.con.HasMod && !ft.con.Trusted && !li.wall {
		byKey, whole, all := ft.frameTargets()
		if !all {
			for _, k := range sortedKeys(li.wkeys) {
				if privateKey(k) || whole[k] || ft.heaps[k] == nil {
					continue
				}
				// implicit frame invariant: checked on entry and at every back edge, assumed at the head
				ft.oblige("inv-entry", b.Instrs[0].Pos(), fmt.Sprintf("loop %d: frame of %s", li.ordinal, k), guard, ft.frameFormula(st, k, byKey), true)
				ft.assume(guard, ft.frameFormula(hs, k, byKey))
			}
		}
	}
	if li.con != nil {
		ctx := ft.loopCtx(li, hs, hov, li.preState)
		for _, inv := range li.con.Invariants {
			t, err := ctx.boolExpr(inv.Expr)
			if err != nil {
				continue
			}
			ft.assume(guard, t)
		}
		if li.con.Decreases != nil {
			v, err := ctx.expr(li.con.Decreases.Expr)
			if err != nil {
				ft.errf("loop %d decreases: %v", li.ordinal, err)
			} else {
				li.variant = v.T
			}
		}
		// reachability cover after the invariant assumption
		ft.obls = append(ft.obls, &Obl{Name: fmt.Sprintf("%s#cover:loop %d invariant satisfiable", ft.key, li.ordinal), Kind: "cover", Guard: guard, Goal: "false", NAssert: len(ft.asserts), Cover: true, Required: true})
	}
	return hs, guard
}

func (ft *FT) loopBack(li *loopInfo, from *ssa.BasicBlock, st *State) {
	if li == nil {
		return
	}
	g := ft.edgeCond(from, li.header)
	if g == "" || g == "false" {
		return
	}
	ov := map[ssa.Value]Term{}
	for _, ins := range li.header.Instrs {
		phi, ok := ins.(*ssa.Phi)
		if !ok {
			break
		}
		for i, p := range li.header.Preds {
			if p == from {
				ov[phi] = ft.val(phi.Edges[i])
			}
		}
	}
	pos := li.header.Instrs[0].Pos()
	if li.con == nil {
		li.con = &LoopContract{}
	}
	ctx := ft.loopCtx(li, st, ov, li.preState)
	if ft.con != nil && ft.con.HasMod && !ft.con.Trusted && !li.wall {
		byKey, whole, all := ft.frameTargets()
		if !all {
			for _, k := range sortedKeys(li.wkeys) {
				if privateKey(k) || whole[k] || ft.heaps[k] == nil {
					continue
				}
				ft.oblige("inv-step", pos, fmt.Sprintf("loop %d: frame of %s", li.ordinal, k), g, ft.frameFormula(st, k, byKey), true)
			}
		}
	}
	if li.heldPre != "" {
		ft.oblige("inv-step", pos, fmt.Sprintf("loop %d: locks balanced over an iteration", li.ordinal), g, eq(ft.get(st, "HELD"), li.heldPre), true)
	}
	for _, inv := range li.con.Invariants {
		t, err := ctx.boolExpr(inv.Expr)
		if err != nil {
			continue
		}
		ft.oblige("inv-step", pos, fmt.Sprintf("loop %d: %s", li.ordinal, inv.Text), g, t, true)
	}
	if li.con.Decreases != nil && li.variant != "" {
		v, err := ctx.expr(li.con.Decreases.Expr)
		if err == nil {
			ft.oblige("decreases", pos, fmt.Sprintf("loop %d: %s", li.ordinal, li.con.Decreases.Text), g, and(app("<", v.T, li.variant), app("<=", "0", li.variant)), true)
		}
	}
}

// emitAxioms adds the trusted axioms of the library specs and of the function's own package.
func (ft *FT) emitAxioms(st *State) {
	pkg := ft.fnPkg()
	for _, ax := range ft.eng.cons.Axioms {
		if ax.Lemma {
			continue
		}
		if ax.PkgName != "" && (pkg == nil || pkgKey(pkg) != ax.PkgName) {
			continue
		}
		ctx := &SpecCtx{ft: ft, pkg: pkg, st: st, old: st, vars: map[string]SpecVal{}}
		if ax.PkgName != "" {
			ctx.pkg = ft.eng.pkgByName[ax.PkgName]
		}
		var qv [][2]string
		func() {
			defer func() {
				if r := recover(); r != nil {
					// an axiom over symbols this package does not import is irrelevant here
					ft.note(fmt.Sprintf("axiom %s not applicable in this package", ax.Name))
				}
			}()
			for _, fld := range ax.Vars {
				t := ctx.resolveType(fld.Type)
				for _, n := range fld.Names {
					boundCtr++
					bn := fmt.Sprintf("%s!a%d", n.Name, boundCtr)
					ctx.vars[n.Name] = SpecVal{T: bn, Typ: t, Sort: ft.d.sortOf(t)}
					qv = append(qv, [2]string{bn, ft.d.sortOf(t)})
				}
			}
			body, err := ctx.boolExpr(ax.Expr)
			if err != nil {
				ft.note(fmt.Sprintf("axiom %s not applicable in this package", ax.Name))
				return
			}
			ft.d.axiom("user "+ax.Name, forall(qv, body))
		}()
	}
}

// litFact: `literals P` in the contract: every string literal of the function body satisfies P.
func (ft *FT) litFact(lit Term) {
	if ft.con == nil || ft.con.LitPred == "" {
		return
	}
	sf := ft.eng.cons.Specs[ft.con.LitPred]
	if sf == nil {
		ft.errf("literals: unknown predicate %s", ft.con.LitPred)
		return
	}
	fname := "spec!" + sf.PkgName + "." + sf.Name
	ft.d.fun(fname, []Sort{"Str"}, "Bool")
	ft.d.axiom("lit "+fname+" "+lit, app(q(fname), lit))
}

// assertAt places the ghost assertions of the contract (assertat "text"#k expr) before the first instruction of the
// source line they name.
func (ft *FT) assertAt(ins ssa.Instruction, st *State) {
	ft.ghostAt(ins, st)
	if ft.con == nil || len(ft.con.AssertAt) == 0 {
		return
	}
	if ft.assertLines == nil {
		// the lines of this function, in source order, that contain each clause's text
		ft.assertLines = map[*Clause][]int{}
		ft.assertFired = map[string]bool{}
		for _, a := range ft.con.AssertAt {
			seen := map[int]bool{}
			for _, b := range ft.fn.Blocks {
				for _, i := range b.Instrs {
					if !i.Pos().IsValid() {
						continue
					}
					p := ft.eng.fset.Position(i.Pos())
					if !seen[p.Line] && strings.Contains(ft.eng.fileLine(p.Filename, p.Line), a.Loc) {
						seen[p.Line] = true
						ft.assertLines[a] = append(ft.assertLines[a], p.Line)
					}
				}
			}
			sort.Ints(ft.assertLines[a])
		}
	}
	if !ins.Pos().IsValid() {
		return
	}
	line := ft.eng.fset.Position(ins.Pos()).Line
	for _, a := range ft.con.AssertAt {
		ls := ft.assertLines[a]
		hit := false
		for i, l := range ls {
			if l == line && (a.Nth == 0 || a.Nth == i+1) {
				hit = true
			}
		}
		key := fmt.Sprintf("%p/%d", a, line)
		if !hit || ft.assertFired[key] {
			continue
		}
		ft.assertFired[key] = true
		a.sites++
		ctx := ft.specCtx(st, ft.entry)
		ctx.local = ft.localResolver(ft.curBlk, false, nil, nil, ctx.local)
		t, err := ctx.boolExpr(a.Expr)
		if err != nil {
			ft.errf("assertat %q: %v", a.Text, err)
			continue
		}
		ft.oblige("assert", token.NoPos, a.Text+" @ "+ft.srcText(ins.Pos()), ft.curGuard, t, true)
	}
}

// lockExprTerm evaluates a contract expression `addr(p.f)` naming a mutex in the given context.
func (ft *FT) lockExprTerm(ctx *SpecCtx, txt string) (Term, bool) {
	e, err := parser.ParseExpr(txt)
	if err != nil {
		return "", false
	}
	v, err := ctx.expr(e)
	if err != nil {
		return "", false
	}
	return v.T, true
}

// lockDiscipline: the implicit lock-discipline assumptions and obligations apply to this function.
func (ft *FT) lockDiscipline() bool {
	if ft.con == nil || ft.con.HoldsLock {
		return false
	}
	for _, r := range ft.con.Requires {
		if strings.Contains(r.Text, "held(") || strings.Contains(r.Text, "heldw(") || strings.Contains(r.Text, "heldr(") {
			return false
		}
	}
	return true
}

// paramMutexes: `addr(p.f)` for every sync.Mutex / sync.RWMutex field f of a struct that parameter p points to.
func paramMutexes(fn *ssa.Function) []string {
	var out []string
	for _, p := range fn.Params {
		if p.Name() == "" || p.Name() == "_" {
			continue
		}
		pt, ok := p.Type().Underlying().(*types.Pointer)
		if !ok {
			continue
		}
		st, ok := pt.Elem().Underlying().(*types.Struct)
		if !ok {
			continue
		}
		for i := 0; i < st.NumFields(); i++ {
			ts := types.TypeString(st.Field(i).Type(), nil)
			if ts == "sync.Mutex" || ts == "sync.RWMutex" {
				out = append(out, "addr("+p.Name()+"."+st.Field(i).Name()+")")
			}
		}
	}
	return out
}

// ghostAt applies the ghost assignments of the contract (ghostat "text"#k g(a) := e; ...) before the first
// instruction of the source line they name. The assignments of one clause are simultaneous.
func (ft *FT) ghostAt(ins ssa.Instruction, st *State) {
	if ft.con == nil || len(ft.con.GhostAt) == 0 || !ins.Pos().IsValid() {
		return
	}
	if ft.ghostLines == nil {
		ft.ghostLines = map[*GhostUpdate][]int{}
		ft.ghostFired = map[string]bool{}
		for _, g := range ft.con.GhostAt {
			seen := map[int]bool{}
			for _, b := range ft.fn.Blocks {
				for _, i := range b.Instrs {
					if !i.Pos().IsValid() {
						continue
					}
					p := ft.eng.fset.Position(i.Pos())
					if !seen[p.Line] && strings.Contains(ft.eng.fileLine(p.Filename, p.Line), g.Loc) {
						seen[p.Line] = true
						ft.ghostLines[g] = append(ft.ghostLines[g], p.Line)
					}
				}
			}
			sort.Ints(ft.ghostLines[g])
		}
	}
	line := ft.eng.fset.Position(ins.Pos()).Line
	for _, g := range ft.con.GhostAt {
		hit := false
		for i, l := range ft.ghostLines[g] {
			if l == line && (g.Nth == 0 || g.Nth == i+1) {
				hit = true
			}
		}
		key := fmt.Sprintf("%p/%d", g, line)
		if !hit || ft.ghostFired[key] {
			continue
		}
		ft.ghostFired[key] = true
		g.sites++
		ctx := ft.specCtx(st, ft.entry)
		ctx.local = ft.localResolver(ft.curBlk, false, nil, nil, ctx.local)
		type upd struct {
			key string
			idx []Term
			val Term
		}
		var ups []upd
		bad := false
		for i := range g.LHS {
			call, ok := g.LHS[i].(*ast.CallExpr)
			fid, ok2 := (ast.Expr)(nil), false
			if ok {
				fid, ok2 = call.Fun, true
			}
			id, ok3 := fid.(*ast.Ident)
			if !ok || !ok2 || !ok3 {
				ft.errf("ghostat %q: left-hand side must be ghostname(args)", g.Text)
				bad = true
				break
			}
			sf, ptypes, rtype := ctx.ghostByName(id.Name)
			if sf == nil {
				ft.errf("ghostat %q: unknown ghost %s", g.Text, id.Name)
				bad = true
				break
			}
			k, _ := ft.ghostKey(sf, ptypes, rtype)
			var idx []Term
			for _, a := range call.Args {
				v, err := ctx.expr(a)
				if err != nil {
					ft.errf("ghostat %q: %v", g.Text, err)
					bad = true
					break
				}
				idx = append(idx, v.T)
			}
			rv, err := ctx.expr(g.RHS[i])
			if err != nil {
				ft.errf("ghostat %q: %v", g.Text, err)
				bad = true
			}
			if bad {
				break
			}
			ups = append(ups, upd{k, idx, rv.T})
		}
		if bad {
			continue
		}
		for _, u := range ups {
			ft.set(st, u.key, storeN(ft.get(st, u.key), u.idx, u.val))
		}
		ft.note("ghost update at \"" + g.Loc + "\": " + g.Text)
	}
}

// storeN: nested store into an array of arrays.
func storeN(h Term, idx []Term, v Term) Term {
	if len(idx) == 0 {
		return v
	}
	if len(idx) == 1 {
		return app("store", h, idx[0], v)
	}
	return app("store", h, idx[0], storeN(app("select", h, idx[0]), idx[1:], v))
}
