package main

import (
	"encoding/json"
	"flag"
	"fmt"
	"os"
	"path/filepath"
	"strings"
	"time"
)

// Mutant is one must-fail case: a textual edit of a repository file that breaks a property.
type Mutant struct {
	Name   string `json:"name"`
	File   string `json:"file"`
	Old    string `json:"old"`
	New    string `json:"new"`
	Expect string `json:"expect"` // substring of a failing obligation name
	Edits  []struct {
		Old string `json:"old"`
		New string `json:"new"`
	} `json:"edits"` // alternatively to old/new: several edits of the same file, each site unique
	Patch  string `json:"patch"`  // alternatively: a unified diff under /verif/seeded (applied with `git apply` semantics is not available in overlay mode)
}

func loadMutants(id string) ([]Mutant, error) {
	b, err := os.ReadFile(filepath.Join(verifRoot(), "selftest", id+".json"))
	if err != nil {
		return nil, err
	}
	var ms []Mutant
	if err := json.Unmarshal(b, &ms); err != nil {
		return nil, err
	}
	return ms, nil
}

// selftest runs the must-fail corpus of the given properties through the overlay (the repository is not touched).
func selftest(args []string) int {
	fs := flag.NewFlagSet("selftest", flag.ExitOnError)
	repo := fs.String("repo", "/repo", "repository")
	only := fs.String("only", "", "run only mutants whose name contains this")
	fs.Parse(args)
	props, err := loadProps()
	if err != nil {
		fmt.Fprintln(os.Stderr, err)
		return 2
	}
	ids := fs.Args()
	if len(ids) == 0 {
		for id := range props {
			ids = append(ids, id)
		}
	}
	bad := 0
	total := 0
	for _, id := range ids {
		pc := props[id]
		if pc == nil {
			continue
		}
		ms, err := loadMutants(id)
		if err != nil {
			continue
		}
		for _, m := range ms {
			if *only != "" && !strings.Contains(m.Name, *only) {
				continue
			}
			total++
			ok, detail := runMutant(*repo, pc, m)
			if ok {
				fmt.Printf("selftest %s/%s: caught (%s)\n", id, m.Name, detail)
			} else {
				bad++
				fmt.Printf("selftest %s/%s: NOT CAUGHT (%s)\n", id, m.Name, detail)
			}
		}
	}
	fmt.Printf("selftest: %d mutants, %d not caught\n", total, bad)
	if bad > 0 {
		return 1
	}
	return 0
}

func runMutant(repo string, pc *PropConfig, m Mutant) (bool, string) {
	path := filepath.Join(repo, m.File)
	b, err := os.ReadFile(path)
	if err != nil {
		return false, err.Error()
	}
	src := string(b)
	if len(m.Edits) > 0 {
		for _, ed := range m.Edits {
			if strings.Count(src, ed.Old) != 1 {
				return false, fmt.Sprintf("edit site occurs %d times in %s", strings.Count(src, ed.Old), m.File)
			}
			src = strings.Replace(src, ed.Old, ed.New, 1)
		}
	} else {
		if strings.Count(src, m.Old) != 1 {
			return false, fmt.Sprintf("edit site occurs %d times in %s", strings.Count(src, m.Old), m.File)
		}
		src = strings.Replace(src, m.Old, m.New, 1)
	}
	overlay := map[string][]byte{path: []byte(src)}
	e, err := loadEngine(repo, pc.Packages, overlay, stdSpecFiles())
	if err != nil {
		return false, "mutant does not load: " + err.Error()
	}
	e.timeout = 10 * time.Second
	wd, _ := os.MkdirTemp("", "govc-self")
	e.workdir = wd
	defer os.RemoveAll(wd)
	rs := runProperty(e, pc, loadFindings())
	var names []string
	for _, r := range rs.failures {
		names = append(names, r.Obl.Name)
		if strings.Contains(r.Obl.Name, m.Expect) {
			return true, r.Status + " " + clip(r.Obl.Name, 120)
		}
	}
	for _, sc := range pc.Structural {
		if strings.HasPrefix(sc, "recursion-guarded|") {
			cycles, nf, serr := e.recursionGuarded(sc)
			head := strings.Join(strings.Split(sc, "|")[:2], "|")
			var ns []string
			if serr != "" || nf == 0 {
				ns = append(ns, "structural:"+sc+"#scan")
			}
			for _, c := range cycles {
				ns = append(ns, "structural:"+head+"#cycle:"+c)
			}
			for _, n := range ns {
				names = append(names, n)
				if strings.Contains(n, m.Expect) {
					return true, "structural " + clip(n, 160)
				}
			}
			continue
		}
		if ok, _ := e.structural(sc); !ok {
			names = append(names, "structural:"+sc)
			if strings.Contains("structural:"+sc, m.Expect) {
				return true, "structural " + sc
			}
		}
	}
	for _, er := range rs.engineErrs {
		// an engine error (a contract that no longer fits the code) fails the check like any violation
		names = append(names, "engine:"+er)
		if strings.Contains("engine:"+er, m.Expect) {
			return true, "engine error " + clip(er, 140)
		}
	}
	if len(names) > 0 {
		return false, "other obligations failed instead: " + clip(strings.Join(names, " | "), 400)
	}
	return false, "all obligations still discharge"
}
