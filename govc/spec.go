package main

import (
	"fmt"
	"go/ast"
	"go/constant"
	"go/token"
	"go/types"
	"strconv"
	"strings"

	"golang.org/x/tools/go/ssa"
)

// SpecVal is a translated spec expression.
type SpecVal struct {
	T    Term
	Typ  types.Type // may be nil for purely logical values
	Sort Sort
}

type SpecCtx struct {
	ft    *FT
	pkg   *types.Package
	st    *State
	old   *State
	pre   *State
	vars  map[string]SpecVal
	local func(c *SpecCtx, name string) (SpecVal, bool, error)
	// preLocal resolves locals inside pre(...): loop-carried variables have their value at loop entry
	preLocal func(c *SpecCtx, name string) (SpecVal, bool, error)
	depth    int
	inOld    bool
}

func (c *SpecCtx) with(vars map[string]SpecVal) *SpecCtx {
	n := *c
	n.vars = map[string]SpecVal{}
	for k, v := range c.vars {
		n.vars[k] = v
	}
	for k, v := range vars {
		n.vars[k] = v
	}
	return &n
}

func (c *SpecCtx) inState(st *State) *SpecCtx {
	n := *c
	n.st = st
	return &n
}

func (c *SpecCtx) mk(t Term, typ types.Type) SpecVal {
	return SpecVal{T: t, Typ: typ, Sort: c.ft.d.sortOf(typ)}
}

func (c *SpecCtx) boolExpr(e ast.Expr) (t Term, err error) {
	defer func() {
		if r := recover(); r != nil {
			err = fmt.Errorf("%v", r)
		}
	}()
	v := c.tr(e)
	if v.Sort != "Bool" {
		return "", fmt.Errorf("expression is not boolean (sort %s)", v.Sort)
	}
	return v.T, nil
}

func (c *SpecCtx) expr(e ast.Expr) (v SpecVal, err error) {
	defer func() {
		if r := recover(); r != nil {
			err = fmt.Errorf("%v", r)
		}
	}()
	v = c.tr(e)
	return v, nil
}

func (c *SpecCtx) fail(f string, a ...any) {
	panic(fmt.Sprintf(f, a...))
}

var intType = types.Typ[types.Int]
var boolType = types.Typ[types.Bool]
var stringType = types.Typ[types.String]

// resolveType resolves a type expression in the package scope (imports by package name).
func (c *SpecCtx) resolveType(e ast.Expr) types.Type {
	switch x := e.(type) {
	case *ast.Ident:
		if c.pkg != nil {
			if o := c.pkg.Scope().Lookup(x.Name); o != nil {
				if tn, ok := o.(*types.TypeName); ok {
					return tn.Type()
				}
			}
		}
		if o := types.Universe.Lookup(x.Name); o != nil {
			if tn, ok := o.(*types.TypeName); ok {
				return tn.Type()
			}
		}
		// spec-only logical types
		switch x.Name {
		case "Int":
			return intType
		}
		// types of dot-imported packages
		if c.pkg != nil {
			for _, imp := range c.ft.eng.dotImports[c.pkg.Path()] {
				if tn, ok := imp.Scope().Lookup(x.Name).(*types.TypeName); ok {
					return tn.Type()
				}
			}
		}
		c.fail("unknown type %s", x.Name)
	case *ast.SelectorExpr:
		if id, ok := x.X.(*ast.Ident); ok {
			if p := c.findImport(id.Name); p != nil {
				if o := p.Scope().Lookup(x.Sel.Name); o != nil {
					if tn, ok := o.(*types.TypeName); ok {
						return tn.Type()
					}
				}
			}
		}
		c.fail("unknown type %s", exprString(e))
	case *ast.StarExpr:
		return types.NewPointer(c.resolveType(x.X))
	case *ast.ArrayType:
		if x.Len == nil {
			return types.NewSlice(c.resolveType(x.Elt))
		}
		if bl, ok := x.Len.(*ast.BasicLit); ok {
			n, _ := strconv.ParseInt(bl.Value, 10, 64)
			return types.NewArray(c.resolveType(x.Elt), n)
		}
	case *ast.MapType:
		return types.NewMap(c.resolveType(x.Key), c.resolveType(x.Value))
	case *ast.InterfaceType:
		return types.NewInterfaceType(nil, nil)
	case *ast.ParenExpr:
		return c.resolveType(x.X)
	case *ast.FuncType:
		return types.NewSignatureType(nil, nil, nil, nil, nil, false)
	}
	c.fail("unsupported type expression %s", exprString(e))
	return nil
}

func (c *SpecCtx) findImport(name string) *types.Package {
	if c.pkg == nil {
		return nil
	}
	if c.pkg.Name() == name {
		return c.pkg
	}
	for _, p := range c.pkg.Imports() {
		if p.Name() == name {
			return p
		}
	}
	// search one level deeper (types reachable via imports of imports)
	for _, p := range c.pkg.Imports() {
		for _, p2 := range p.Imports() {
			if p2.Name() == name {
				return p2
			}
		}
	}
	if p := c.ft.eng.pkgByName[name]; p != nil {
		return p
	}
	return nil
}

func exprString(e ast.Expr) string {
	return types.ExprString(e)
}

func (c *SpecCtx) tr(e ast.Expr) SpecVal {
	ft := c.ft
	switch x := e.(type) {
	case *ast.ParenExpr:
		return c.tr(x.X)
	case *ast.BasicLit:
		switch x.Kind {
		case token.INT:
			v := constant.MakeFromLiteral(x.Value, token.INT, 0)
			return SpecVal{T: v.ExactString(), Typ: intType, Sort: "Int"}
		case token.STRING:
			s, _ := strconv.Unquote(x.Value)
			return SpecVal{T: ft.d.strLit(s), Typ: stringType, Sort: "Str"}
		case token.FLOAT:
			v := constant.MakeFromLiteral(x.Value, token.FLOAT, 0)
			return SpecVal{T: ft.floatLit(v), Typ: types.Typ[types.Float64], Sort: "F64"}
		case token.CHAR:
			s, _ := strconv.Unquote(x.Value)
			return SpecVal{T: num(int64([]rune(s)[0])), Typ: intType, Sort: "Int"}
		}
		c.fail("unsupported literal %s", x.Value)
	case *ast.Ident:
		return c.ident(x)
	case *ast.SelectorExpr:
		return c.selector(x)
	case *ast.IndexExpr:
		return c.index(x)
	case *ast.SliceExpr:
		b := c.tr(x.X)
		lo := "0"
		if x.Low != nil {
			lo = c.tr(x.Low).T
		}
		if b.Sort == "Str" {
			hi := app("slen", b.T)
			if x.High != nil {
				hi = c.tr(x.High).T
			}
			return SpecVal{T: ft.ssub(b.T, lo, hi), Typ: stringType, Sort: "Str"}
		}
		if b.Sort == "Slice" {
			hi := app("sl-len", b.T)
			if x.High != nil {
				hi = c.tr(x.High).T
			}
			return SpecVal{T: app("mk-slice", app("sl-base", b.T), app("+", app("sl-off", b.T), lo), app("-", hi, lo), app("-", app("sl-cap", b.T), lo)), Typ: b.Typ, Sort: "Slice"}
		}
		c.fail("slice expression on %s", b.Sort)
	case *ast.StarExpr:
		p := c.tr(x.X)
		if p.Typ == nil {
			c.fail("deref of untyped value")
		}
		elem := deref(p.Typ)
		if _, ok := elem.Underlying().(*types.Struct); ok && !isOpaqueInt(elem) {
			return c.mk(ft.load(c.st, &Loc{typ: elem, obj: p.T}), elem)
		}
		return c.mk(ft.load(c.st, &Loc{key: ft.cellKey(elem), idx: []Term{p.T}, typ: elem}), elem)
	case *ast.UnaryExpr:
		v := c.tr(x.X)
		switch x.Op {
		case token.NOT:
			return SpecVal{T: not(v.T), Typ: boolType, Sort: "Bool"}
		case token.SUB:
			return SpecVal{T: app("-", v.T), Typ: v.Typ, Sort: v.Sort}
		}
		c.fail("unsupported unary %s", x.Op)
	case *ast.BinaryExpr:
		return c.binary(x)
	case *ast.CallExpr:
		return c.call(x)
	case *ast.TypeAssertExpr:
		v := c.tr(x.X)
		t := c.resolveType(x.Type)
		_, ubx, _ := ft.d.box(t)
		return c.mk(app(ubx, v.T), t)
	}
	c.fail("unsupported spec expression %s (%T)", exprString(e), e)
	return SpecVal{}
}

func (c *SpecCtx) ident(x *ast.Ident) SpecVal {
	ft := c.ft
	switch x.Name {
	case "true":
		return SpecVal{T: "true", Typ: boolType, Sort: "Bool"}
	case "false":
		return SpecVal{T: "false", Typ: boolType, Sort: "Bool"}
	case "nil":
		return SpecVal{T: "nil", Typ: types.Typ[types.UntypedNil], Sort: "nil"}
	}
	if v, ok := c.vars[x.Name]; ok {
		return v
	}
	if c.local != nil {
		v, ok, err := c.local(c, x.Name)
		if err != nil {
			c.fail("%v", err)
		}
		if ok {
			return v
		}
	}
	// package scope
	if c.pkg != nil {
		if o := c.pkg.Scope().Lookup(x.Name); o != nil {
			return c.object(o)
		}
	}
	if sf, ok := ft.eng.cons.Specs[x.Name]; ok && len(sf.PNames) == 0 {
		return c.specCall(sf, nil)
	}
	// dot-imported names (import . "pkg/ast"): an exported object of exactly one imported package
	if c.pkg != nil && ast.IsExported(x.Name) {
		var found types.Object
		n := 0
		for _, imp := range ft.eng.dotImports[c.pkg.Path()] {
			if o := imp.Scope().Lookup(x.Name); o != nil {
				found = o
				n++
			}
		}
		if n == 1 {
			return c.object(found)
		}
	}
	c.fail("unknown identifier %s", x.Name)
	return SpecVal{}
}

func (c *SpecCtx) object(o types.Object) SpecVal {
	ft := c.ft
	switch ob := o.(type) {
	case *types.Const:
		return c.constVal(ob.Val(), ob.Type())
	case *types.Var:
		// package-level variable
		k := "V!" + ob.Pkg().Name() + "." + ob.Name()
		ft.keySort(k, ft.d.sortOf(ob.Type()))
		return c.mk(ft.get(c.st, k), ob.Type())
	case *types.Func:
		name := "fn!" + normName(ob.FullName())
		ft.d.cnst(name, "Int")
		return SpecVal{T: q(name), Typ: ob.Type(), Sort: "Int"}
	}
	c.fail("unsupported object %s", o)
	return SpecVal{}
}

func (c *SpecCtx) constVal(v constant.Value, t types.Type) SpecVal {
	ft := c.ft
	switch v.Kind() {
	case constant.Bool:
		if constant.BoolVal(v) {
			return SpecVal{T: "true", Typ: t, Sort: "Bool"}
		}
		return SpecVal{T: "false", Typ: t, Sort: "Bool"}
	case constant.String:
		return SpecVal{T: ft.d.strLit(constant.StringVal(v)), Typ: t, Sort: "Str"}
	case constant.Int:
		if isFloat(t) {
			return SpecVal{T: ft.floatLit(v), Typ: t, Sort: "F64"}
		}
		s := v.ExactString()
		if strings.HasPrefix(s, "-") {
			s = "(- " + s[1:] + ")"
		}
		return SpecVal{T: s, Typ: t, Sort: "Int"}
	case constant.Float:
		return SpecVal{T: ft.floatLit(v), Typ: t, Sort: "F64"}
	}
	c.fail("unsupported constant")
	return SpecVal{}
}

func (c *SpecCtx) selector(x *ast.SelectorExpr) SpecVal {
	ft := c.ft
	if id, ok := x.X.(*ast.Ident); ok {
		if _, bound := c.vars[id.Name]; !bound {
			isLocal := false
			if c.local != nil {
				if _, ok2, _ := c.local(c, id.Name); ok2 {
					isLocal = true
				}
			}
			if !isLocal {
				if c.pkg == nil || c.pkg.Scope().Lookup(id.Name) == nil {
					if p := c.findImport(id.Name); p != nil {
						o := p.Scope().Lookup(x.Sel.Name)
						if o == nil {
							c.fail("unknown %s.%s", id.Name, x.Sel.Name)
						}
						return c.object(o)
					}
				}
			}
		}
	}
	b := c.tr(x.X)
	if b.Typ == nil {
		c.fail("field selection on untyped value %s", exprString(x.X))
	}
	obj, path, _ := types.LookupFieldOrMethod(b.Typ, true, c.pkgOf(b.Typ), x.Sel.Name)
	fv, ok := obj.(*types.Var)
	if !ok || fv == nil {
		c.fail("no field %s in %s", x.Sel.Name, b.Typ)
	}
	cur := b
	for _, fi := range path {
		t := cur.Typ
		if p, ok := t.Underlying().(*types.Pointer); ok {
			// through pointer: heap read
			stt := p.Elem().Underlying().(*types.Struct)
			f := stt.Field(fi)
			k := fieldKey(p.Elem(), f)
			ft.keySort(k, arraySort("Int", ft.d.sortOf(f.Type())))
			cur = c.mk(sel(ft.get(c.st, k), cur.T), f.Type())
			continue
		}
		stt, ok := t.Underlying().(*types.Struct)
		if !ok {
			c.fail("field selection on %s", t)
		}
		ft.d.sortOf(t)
		f := stt.Field(fi)
		cur = c.mk(app(fieldAcc(ft.d.structName(t), fi, f.Name()), cur.T), f.Type())
	}
	if _, isSlice := cur.Typ.Underlying().(*types.Slice); isSlice && !strings.Contains(cur.T, "!q") && !strings.Contains(cur.T, "!r") && !strings.Contains(cur.T, "!a") {
		// heap well-formedness: a slice stored in a field has 0 <= len <= cap (ground terms only)
		ft.keySort("$next", "Int")
		ft.assume("true", and(app("<=", "0", app("sl-len", cur.T)), app("<=", app("sl-len", cur.T), app("sl-cap", cur.T)), app("<=", app("sl-cap", cur.T), "1152921504606846976"),
			app("<=", "0", app("sl-base", cur.T)), app("<", app("sl-base", cur.T), ft.get(c.st, "$next"))))
	}
	return cur
}

func (c *SpecCtx) pkgOf(t types.Type) *types.Package {
	if p, ok := t.Underlying().(*types.Pointer); ok {
		t = p.Elem()
	}
	if n, ok := t.(*types.Named); ok && n.Obj().Pkg() != nil {
		return n.Obj().Pkg()
	}
	return c.pkg
}

func (c *SpecCtx) index(x *ast.IndexExpr) SpecVal {
	ft := c.ft
	b := c.tr(x.X)
	i := c.tr(x.Index)
	if b.Typ == nil {
		c.fail("index on untyped value")
	}
	switch t := b.Typ.Underlying().(type) {
	case *types.Slice:
		k := ft.elemKey(t.Elem())
		return c.mk(app(ft.atFun(k), ft.get(c.st, k), b.T, i.T), t.Elem())
	case *types.Map:
		ks := ft.mapKeys(t)
		has := and(not(eq(b.T, "0")), sel(ft.get(c.st, ks[0]), b.T, i.T))
		return c.mk(ite(has, sel(ft.get(c.st, ks[1]), b.T, i.T), ft.d.zero(t.Elem())), t.Elem())
	case *types.Basic:
		if isString(b.Typ) {
			return SpecVal{T: app("sat", b.T, i.T), Typ: types.Typ[types.Uint8], Sort: "Int"}
		}
	case *types.Array:
		return c.mk(app("select", b.T, i.T), t.Elem())
	case *types.Pointer:
		if at, ok := t.Elem().Underlying().(*types.Array); ok {
			k := ft.elemKey(at.Elem())
			return c.mk(sel(ft.get(c.st, k), b.T, i.T), at.Elem())
		}
	}
	c.fail("unsupported index on %s", b.Typ)
	return SpecVal{}
}

func (c *SpecCtx) coerceNil(a, b SpecVal) (SpecVal, SpecVal) {
	fix := func(n, o SpecVal) SpecVal {
		if n.Sort != "nil" {
			return n
		}
		if o.Typ == nil {
			c.fail("nil compared with untyped value")
		}
		return SpecVal{T: c.ft.d.zero(o.Typ), Typ: o.Typ, Sort: o.Sort}
	}
	return fix(a, b), fix(b, a)
}

func (c *SpecCtx) binary(x *ast.BinaryExpr) SpecVal {
	ft := c.ft
	if x.Op == token.LAND || x.Op == token.LOR {
		a, b := c.tr(x.X), c.tr(x.Y)
		if x.Op == token.LAND {
			return SpecVal{T: and(a.T, b.T), Typ: boolType, Sort: "Bool"}
		}
		return SpecVal{T: or(a.T, b.T), Typ: boolType, Sort: "Bool"}
	}
	a, b := c.tr(x.X), c.tr(x.Y)
	a, b = c.coerceNil(a, b)
	if a.Sort != b.Sort {
		c.fail("sort mismatch in %s: %s vs %s", exprString(x), a.Sort, b.Sort)
	}
	bv := func(t Term) SpecVal { return SpecVal{T: t, Typ: boolType, Sort: "Bool"} }
	switch x.Op {
	case token.EQL:
		return bv(eq(a.T, b.T))
	case token.NEQ:
		return bv(not(eq(a.T, b.T)))
	}
	switch a.Sort {
	case "Int":
		typ := a.Typ
		switch x.Op {
		case token.ADD:
			return SpecVal{T: app("+", a.T, b.T), Typ: typ, Sort: "Int"}
		case token.SUB:
			return SpecVal{T: app("-", a.T, b.T), Typ: typ, Sort: "Int"}
		case token.MUL:
			return SpecVal{T: app("*", a.T, b.T), Typ: typ, Sort: "Int"}
		case token.QUO:
			return SpecVal{T: app("tdiv", a.T, b.T), Typ: typ, Sort: "Int"}
		case token.REM:
			return SpecVal{T: app("tmod", a.T, b.T), Typ: typ, Sort: "Int"}
		case token.LSS:
			return bv(app("<", a.T, b.T))
		case token.LEQ:
			return bv(app("<=", a.T, b.T))
		case token.GTR:
			return bv(app(">", a.T, b.T))
		case token.GEQ:
			return bv(app(">=", a.T, b.T))
		}
	case "Str":
		if x.Op == token.ADD {
			return SpecVal{T: ft.sconcat(a.T, b.T), Typ: stringType, Sort: "Str"}
		}
	case "Real":
		switch x.Op {
		case token.ADD, token.SUB, token.MUL:
			return SpecVal{T: app(x.Op.String(), a.T, b.T), Sort: "Real"}
		case token.QUO:
			return SpecVal{T: app("/", a.T, b.T), Sort: "Real"}
		case token.LSS, token.LEQ, token.GTR, token.GEQ:
			return bv(app(x.Op.String(), a.T, b.T))
		}
	case "F64":
		switch x.Op {
		case token.LSS:
			return bv(app(ft.ufun("flt", []Sort{"F64", "F64"}, "Bool"), a.T, b.T))
		case token.LEQ:
			return bv(app(ft.ufun("fle", []Sort{"F64", "F64"}, "Bool"), a.T, b.T))
		case token.GTR:
			return bv(app(ft.ufun("flt", []Sort{"F64", "F64"}, "Bool"), b.T, a.T))
		case token.GEQ:
			return bv(app(ft.ufun("fle", []Sort{"F64", "F64"}, "Bool"), b.T, a.T))
		case token.ADD:
			return SpecVal{T: app(ft.ufun("fadd", []Sort{"F64", "F64"}, "F64"), a.T, b.T), Typ: a.Typ, Sort: "F64"}
		case token.SUB:
			return SpecVal{T: app(ft.ufun("fsub", []Sort{"F64", "F64"}, "F64"), a.T, b.T), Typ: a.Typ, Sort: "F64"}
		case token.MUL:
			return SpecVal{T: app(ft.ufun("fmul", []Sort{"F64", "F64"}, "F64"), a.T, b.T), Typ: a.Typ, Sort: "F64"}
		case token.QUO:
			return SpecVal{T: app(ft.ufun("fdiv", []Sort{"F64", "F64"}, "F64"), a.T, b.T), Typ: a.Typ, Sort: "F64"}
		}
	}
	c.fail("unsupported binary %s on sort %s", x.Op, a.Sort)
	return SpecVal{}
}

var boundCtr int

func (c *SpecCtx) call(x *ast.CallExpr) SpecVal {
	ft := c.ft
	bv := func(t Term) SpecVal { return SpecVal{T: t, Typ: boolType, Sort: "Bool"} }
	name := ""
	switch f := x.Fun.(type) {
	case *ast.Ident:
		name = f.Name
	case *ast.SelectorExpr:
		if id, ok := f.X.(*ast.Ident); ok {
			name = id.Name + "." + f.Sel.Name
		}
	case *ast.ParenExpr, *ast.StarExpr, *ast.ArrayType, *ast.MapType:
		// conversion
		t := c.resolveType(x.Fun)
		v := c.tr(x.Args[0])
		return SpecVal{T: v.T, Typ: t, Sort: ft.d.sortOf(t)}
	}
	switch name {
	case "implies":
		a, b := c.tr(x.Args[0]), c.tr(x.Args[1])
		return bv(implies(a.T, b.T))
	case "iff":
		a, b := c.tr(x.Args[0]), c.tr(x.Args[1])
		return bv(eq(a.T, b.T))
	case "ite":
		cnd, a, b := c.tr(x.Args[0]), c.tr(x.Args[1]), c.tr(x.Args[2])
		a, b = c.coerceNil(a, b)
		return SpecVal{T: ite(cnd.T, a.T, b.T), Typ: a.Typ, Sort: a.Sort}
	case "old":
		if c.old == nil {
			c.fail("old() not available here")
		}
		n := c.inState(c.old)
		return n.tr(x.Args[0])
	case "ref":
		// ref(x): the address of the local variable x (an allocation of the function under verification)
		id, ok := x.Args[0].(*ast.Ident)
		if !ok {
			c.fail("ref() needs a local variable name")
		}
		for _, b := range ft.fn.Blocks {
			for _, ins := range b.Instrs {
				if al, ok := ins.(*ssa.Alloc); ok && al.Comment == id.Name {
					if ts, ok := ft.env[al]; ok && len(ts) == 1 {
						return SpecVal{T: ts[0], Typ: al.Type(), Sort: "Int"}
					}
				}
			}
		}
		c.fail("ref(): no allocated local %s at this point", id.Name)
	case "local":
		// local(name): the Go local of that name even where a result variable of the same name exists
		id, ok := x.Args[0].(*ast.Ident)
		if !ok || c.local == nil {
			c.fail("local(): needs an identifier and a function body context")
		}
		v, found, err := c.local(c, id.Name)
		if err != nil {
			c.fail("%v", err)
		}
		if !found {
			c.fail("unknown identifier %s", id.Name)
		}
		return v
	case "comparable":
		v := c.tr(x.Args[0])
		return bv(ft.comparableDyn(v.T))
	case "wrap64":
		v := c.tr(x.Args[0])
		return SpecVal{T: app("wrap64", v.T), Typ: types.Typ[types.Int64], Sort: "Int"}
	case "feq":
		a, b := c.tr(x.Args[0]), c.tr(x.Args[1])
		return bv(app(ft.ufun("feq", []Sort{"F64", "F64"}, "Bool"), a.T, b.T))
	case "fneg":
		a := c.tr(x.Args[0])
		return SpecVal{T: app(ft.ufun("fneg", []Sort{"F64"}, "F64"), a.T), Typ: a.Typ, Sort: "F64"}
	case "runecount":
		// the number of code points of a string: the length of []rune(s) in the code
		a := c.tr(x.Args[0])
		ft.d.axiom("runecount range", "(forall ((s Str)) (! (and (<= 0 (runecount s)) (<= (runecount s) (slen s))) :pattern ((runecount s))))")
		return SpecVal{T: app(ft.ufun("runecount", []Sort{"Str"}, "Int"), a.T), Typ: intType, Sort: "Int"}
	case "strlt":
		a, b := c.tr(x.Args[0]), c.tr(x.Args[1])
		return bv(app(ft.ufun("strlt", []Sort{"Str", "Str"}, "Bool"), a.T, b.T))
	case "panicking":
		ft.keySort("$panicking", "Bool")
		return SpecVal{T: ft.get(c.st, "$panicking"), Typ: boolType, Sort: "Bool"}
	case "clocknow":
		ft.keySort("$clock", "Int")
		return SpecVal{T: ft.get(c.st, "$clock"), Typ: intType, Sort: "Int"}
	case "atlock":
		if c.ft.afterLock == nil {
			c.fail("atlock(): no lock acquired before this point")
		}
		n := c.inState(c.ft.afterLock)
		return n.tr(x.Args[0])
	case "pre":
		if c.pre == nil {
			c.fail("pre() only inside loop invariants")
		}
		n := c.inState(c.pre)
		if c.preLocal != nil {
			n.local = c.preLocal
		}
		return n.tr(x.Args[0])
	case "len":
		v := c.tr(x.Args[0])
		switch v.Sort {
		case "Str":
			return SpecVal{T: app("slen", v.T), Typ: intType, Sort: "Int"}
		case "Slice":
			return SpecVal{T: app("sl-len", v.T), Typ: intType, Sort: "Int"}
		case "Int":
			if v.Typ != nil {
				if mt, ok := v.Typ.Underlying().(*types.Map); ok {
					return SpecVal{T: ft.mapLen(c.st, v.T, mt), Typ: intType, Sort: "Int"}
				}
			}
		}
		c.fail("len of %s", v.Sort)
	case "cap":
		v := c.tr(x.Args[0])
		return SpecVal{T: app("sl-cap", v.T), Typ: intType, Sort: "Int"}
	case "base":
		v := c.tr(x.Args[0])
		return SpecVal{T: app("sl-base", v.T), Typ: intType, Sort: "Int"}
	case "off":
		v := c.tr(x.Args[0])
		return SpecVal{T: app("sl-off", v.T), Typ: intType, Sort: "Int"}
	case "has":
		m, k := c.tr(x.Args[0]), c.tr(x.Args[1])
		mt, ok := m.Typ.Underlying().(*types.Map)
		if !ok {
			c.fail("has() on non-map")
		}
		ks := ft.mapKeys(mt)
		return bv(and(not(eq(m.T, "0")), sel(ft.get(c.st, ks[0]), m.T, k.T)))
	case "dyn":
		v := c.tr(x.Args[0])
		return SpecVal{T: app("dyn", v.T), Typ: intType, Sort: "Int"}
	case "typeis":
		v := c.tr(x.Args[0])
		t := c.resolveType(x.Args[1])
		ft.d.box(t)
		ft.declComparable(t)
		return bv(eq(app("dyn", v.T), num(int64(ft.d.typeID(t)))))
	case "box":
		v := c.tr(x.Args[0])
		if v.Typ == nil {
			c.fail("box of untyped value")
		}
		bx, _, _ := ft.d.box(v.Typ)
		return SpecVal{T: app(bx, v.T), Typ: types.NewInterfaceType(nil, nil), Sort: "Iface"}
	case "boxas":
		t := c.resolveType(x.Args[0])
		v := c.tr(x.Args[1])
		bx, _, _ := ft.d.box(t)
		return SpecVal{T: app(bx, v.T), Typ: types.NewInterfaceType(nil, nil), Sort: "Iface"}
	case "fresh":
		v := c.tr(x.Args[0])
		if c.old == nil {
			c.fail("fresh() needs an old state")
		}
		t := v.T
		if v.Sort == "Slice" {
			t = app("sl-base", v.T)
		}
		return bv(app(">=", t, ft.get(c.old, "$next")))
	case "allocated":
		v := c.tr(x.Args[0])
		t := v.T
		if v.Sort == "Slice" {
			t = app("sl-base", v.T)
		}
		return bv(and(app("<", "0", t), app("<", t, ft.get(c.st, "$next"))))
	case "forall", "exists":
		return c.quant(name, x)
	case "row":
		v := c.tr(x.Args[0])
		sl, ok := v.Typ.Underlying().(*types.Slice)
		if !ok {
			c.fail("row() of non-slice")
		}
		k := ft.elemKey(sl.Elem())
		at := types.NewArray(sl.Elem(), 0)
		return SpecVal{T: sel(ft.get(c.st, k), app("sl-base", v.T)), Typ: at, Sort: ft.d.sortOf(at)}
	case "libm":
		// libm("(time.Duration).Minutes", float64, recv, args...): result #0 of a deterministic library method, by its SSA name
		bl, ok := x.Args[0].(*ast.BasicLit)
		if !ok {
			c.fail("libm: first argument must be a string literal")
		}
		mname, _ := strconv.Unquote(bl.Value)
		rt := c.resolveType(x.Args[1])
		var as []Term
		var sorts []Sort
		for _, a := range x.Args[2:] {
			v := c.tr(a)
			as = append(as, v.T)
			sorts = append(sorts, v.Sort)
		}
		un := fmt.Sprintf("uf!%s#0", mname)
		ft.d.fun(un, sorts, ft.d.sortOf(rt))
		return c.mk(app(q(un), as...), rt)
	case "libcalln":
		// libcalln(k, pkg.Func, args...): the k-th result of a deterministic library function
		kv := c.tr(x.Args[0])
		k, _ := strconv.Atoi(kv.T)
		sig := c.lookupFuncSig(x.Args[1])
		fname := normName(exprString(x.Args[1]))
		var as []Term
		var sorts []Sort
		for _, a := range x.Args[2:] {
			v := c.tr(a)
			as = append(as, v.T)
			sorts = append(sorts, v.Sort)
		}
		rt := sig.Results().At(k).Type()
		un := fmt.Sprintf("uf!%s#%d", fname, k)
		ft.d.fun(un, sorts, ft.d.sortOf(rt))
		return c.mk(app(q(un), as...), rt)
	case "libcall":
		// libcall(pkg.Func, args...): the (first) result of a deterministic library function of scalar arguments
		sig := c.lookupFuncSig(x.Args[0])
		fname := normName(exprString(x.Args[0]))
		if !strings.Contains(fname, ".") && c.pkg != nil {
			fname = pkgKey(c.pkg) + "." + fname
		}
		var as []Term
		var sorts []Sort
		for _, a := range x.Args[1:] {
			v := c.tr(a)
			as = append(as, v.T)
			sorts = append(sorts, v.Sort)
		}
		rt := sig.Results().At(0).Type()
		un := fmt.Sprintf("uf!%s#0", fname)
		ft.d.fun(un, sorts, ft.d.sortOf(rt))
		return c.mk(app(q(un), as...), rt)
	case "fnlen", "fnat":
		sig := c.lookupFuncSig(x.Args[0])
		fname := normName(exprString(x.Args[0]))
		if !strings.Contains(fname, ".") && c.pkg != nil {
			fname = pkgKey(c.pkg) + "." + fname
		}
		rest := x.Args[1:]
		var idx SpecVal
		if name == "fnat" {
			idx = c.tr(rest[len(rest)-1])
			rest = rest[:len(rest)-1]
		}
		var as []Term
		var sorts []Sort
		for _, a := range rest {
			v := c.tr(a)
			as = append(as, v.T)
			sorts = append(sorts, v.Sort)
		}
		sl, ok := sig.Results().At(0).Type().Underlying().(*types.Slice)
		if !ok {
			c.fail("%s: function does not return a slice", name)
		}
		lenf, rowf := ft.functionalUFs(fname, sorts, sl.Elem())
		if name == "fnlen" {
			return SpecVal{T: app(lenf, as...), Typ: intType, Sort: "Int"}
		}
		return c.mk(app("select", app(rowf, as...), idx.T), sl.Elem())
	case "visited":
		// visited(rangeOrdinal, key): ghost visited-set of the n-th map range of the function
		n := c.tr(x.Args[0])
		k := c.tr(x.Args[1])
		r := ft.nthRange(n.T)
		if r == nil {
			c.fail("no map range #%s", n.T)
		}
		return bv(app("select", ft.get(c.st, ft.visKey(r)), k.T))
	case "closed":
		// closed(ch): the channel has been closed (ghost)
		v := c.tr(x.Args[0])
		ft.keySort("CLOSED", arraySort("Int", "Bool"))
		return bv(app("select", ft.get(c.st, "CLOSED"), v.T))
	case "held":
		// held(lockexpr): the lock is held at this point (ghost)
		v := c.tr(x.Args[0])
		ft.keySort("HELD", arraySort("Int", "Int"))
		return bv(not(eq(sel(ft.get(c.st, "HELD"), v.T), "0")))
	case "heldw":
		v := c.tr(x.Args[0])
		ft.keySort("HELD", arraySort("Int", "Int"))
		return bv(eq(sel(ft.get(c.st, "HELD"), v.T), "2"))
	case "addr":
		// addr(x.f): address term of a field (used for locks)
		se, ok := x.Args[0].(*ast.SelectorExpr)
		if !ok {
			c.fail("addr() needs x.f")
		}
		b := c.tr(se.X)
		pt, ok := b.Typ.Underlying().(*types.Pointer)
		if !ok {
			c.fail("addr() base must be a pointer")
		}
		stt := pt.Elem().Underlying().(*types.Struct)
		for i := 0; i < stt.NumFields(); i++ {
			if stt.Field(i).Name() == se.Sel.Name {
				l := &Loc{key: fieldKey(pt.Elem(), stt.Field(i)), idx: []Term{b.T}, typ: stt.Field(i).Type()}
				ft.keySort(l.key, arraySort("Int", ft.d.sortOf(stt.Field(i).Type())))
				return SpecVal{T: ft.materialize(nil, l), Typ: types.NewPointer(stt.Field(i).Type()), Sort: "Int"}
			}
		}
		c.fail("addr(): no field %s", se.Sel.Name)
	}
	if name == "min" || name == "max" {
		a, b := c.tr(x.Args[0]), c.tr(x.Args[1])
		if a.Sort == "Int" && b.Sort == "Int" {
			if name == "min" {
				return SpecVal{T: ite(app("<=", a.T, b.T), a.T, b.T), Typ: a.Typ, Sort: "Int"}
			}
			return SpecVal{T: ite(app(">=", a.T, b.T), a.T, b.T), Typ: a.Typ, Sort: "Int"}
		}
	}
	// type conversion by name
	if id, ok := x.Fun.(*ast.Ident); ok && len(x.Args) == 1 {
		if c.isTypeName(id.Name) {
			t := c.resolveType(x.Fun)
			v := c.tr(x.Args[0])
			if v.Sort == "nil" {
				return SpecVal{T: ft.d.zero(t), Typ: t, Sort: ft.d.sortOf(t)}
			}
			ts := ft.d.sortOf(t)
			if v.Sort == "F64" && ts == "Int" {
				return SpecVal{T: app(ft.ufun("f2i", []Sort{"F64"}, "Int"), v.T), Typ: t, Sort: ts}
			}
			if v.Sort == "Int" && ts == "F64" {
				return SpecVal{T: app(ft.ufun("i2f", []Sort{"Int"}, "F64"), v.T), Typ: t, Sort: ts}
			}
			return SpecVal{T: v.T, Typ: t, Sort: ts}
		}
	}
	if se, ok := x.Fun.(*ast.SelectorExpr); ok && len(x.Args) == 1 {
		if id, ok := se.X.(*ast.Ident); ok {
			if p := c.findImport(id.Name); p != nil {
				if tn, ok := p.Scope().Lookup(se.Sel.Name).(*types.TypeName); ok {
					v := c.tr(x.Args[0])
					return SpecVal{T: v.T, Typ: tn.Type(), Sort: ft.d.sortOf(tn.Type())}
				}
			}
		}
	}
	// spec function
	var sf *SpecFunc
	if c.pkg != nil {
		sf = ft.eng.cons.Specs[pkgKey(c.pkg)+"."+name]
	}
	if sf == nil {
		sf = ft.eng.cons.Specs[name]
	}
	if sf == nil {
		c.fail("unknown spec function %s", name)
	}
	var args []SpecVal
	for _, a := range x.Args {
		args = append(args, c.tr(a))
	}
	return c.specCall(sf, args)
}

func (c *SpecCtx) isTypeName(n string) bool {
	if c.pkg != nil {
		if _, ok := c.pkg.Scope().Lookup(n).(*types.TypeName); ok {
			return true
		}
	}
	if _, ok := types.Universe.Lookup(n).(*types.TypeName); ok {
		return true
	}
	return false
}

func (c *SpecCtx) specPkg(sf *SpecFunc) *types.Package {
	if p := c.ft.eng.pkgByName[sf.PkgName]; p != nil {
		return p
	}
	return c.pkg
}

func (c *SpecCtx) specCall(sf *SpecFunc, args []SpecVal) SpecVal {
	ft := c.ft
	if len(args) != len(sf.PNames) {
		c.fail("spec function %s expects %d args", sf.Name, len(sf.PNames))
	}
	sc := *c
	sc.pkg = c.specPkg(sf)
	sc.local = nil
	var ptypes []types.Type
	for i := range sf.PNames {
		ptypes = append(ptypes, sc.resolveType(sf.PTypes[i]))
	}
	var rtype types.Type = boolType
	if sf.Result != nil {
		rtype = sc.resolveType(sf.Result)
	}
	for i := range args {
		if args[i].Sort == "nil" {
			args[i] = SpecVal{T: ft.d.zero(ptypes[i]), Typ: ptypes[i], Sort: ft.d.sortOf(ptypes[i])}
		}
		if args[i].Sort != ft.d.sortOf(ptypes[i]) {
			c.fail("spec function %s arg %d: sort %s, want %s", sf.Name, i, args[i].Sort, ft.d.sortOf(ptypes[i]))
		}
	}
	if sf.Ghost {
		key, _ := ft.ghostKey(sf, ptypes, rtype)
		var ts []Term
		for i := range args {
			ts = append(ts, args[i].T)
		}
		return SpecVal{T: sel(ft.get(c.st, key), ts...), Typ: rtype, Sort: ft.d.sortOf(rtype)}
	}
	if sf.Body == nil || sf.Rec {
		// uninterpreted (or recursive: uninterpreted + unfolding axiom)
		var sorts []Sort
		var ts []Term
		for i := range args {
			sorts = append(sorts, ft.d.sortOf(ptypes[i]))
			ts = append(ts, args[i].T)
		}
		fname := "spec!" + sf.PkgName + "." + sf.Name
		rs := ft.d.sortOf(rtype)
		if len(sorts) == 0 {
			ft.d.cnst(fname, rs)
			return SpecVal{T: q(fname), Typ: rtype, Sort: rs}
		}
		ft.d.fun(fname, sorts, rs)
		if sf.Rec && sf.Body != nil && !ft.d.have["recax "+fname] {
			ft.d.have["recax "+fname] = true
			// unfolding axiom (heap-independent recursive spec functions only)
			vars := map[string]SpecVal{}
			var qv [][2]string
			var as []Term
			for i, n := range sf.PNames {
				boundCtr++
				bn := fmt.Sprintf("%s!r%d", n, boundCtr)
				vars[n] = SpecVal{T: bn, Typ: ptypes[i], Sort: sorts[i]}
				qv = append(qv, [2]string{bn, sorts[i]})
				as = append(as, bn)
			}
			bc := sc
			bc.vars = vars
			body := bc.tr(sf.Body)
			ft.d.axiom("recdef "+fname, forall(qv, "(! "+eq(app(q(fname), as...), body.T)+" :pattern ("+app(q(fname), as...)+"))"))
		}
		return SpecVal{T: app(q(fname), ts...), Typ: rtype, Sort: rs}
	}
	if c.depth > 40 {
		c.fail("spec function expansion too deep (recursive? use 'spec rec func')")
	}
	vars := map[string]SpecVal{}
	for i, n := range sf.PNames {
		vars[n] = SpecVal{T: args[i].T, Typ: ptypes[i], Sort: args[i].Sort}
	}
	sc.vars = vars
	sc.depth = c.depth + 1
	r := sc.tr(sf.Body)
	if r.Typ == nil {
		r.Typ = rtype
	}
	return r
}

// forall(i, lo, hi, P)  |  forall(x, T, P)  where T is a type expression
func (c *SpecCtx) quant(kind string, x *ast.CallExpr) SpecVal {
	id, ok := x.Args[0].(*ast.Ident)
	if !ok {
		c.fail("%s: first argument must be an identifier", kind)
	}
	boundCtr++
	bn := fmt.Sprintf("%s!q%d", id.Name, boundCtr)
	bv := func(t Term) SpecVal { return SpecVal{T: t, Typ: boolType, Sort: "Bool"} }
	switch len(x.Args) {
	case 4:
		lo, hi := c.tr(x.Args[1]), c.tr(x.Args[2])
		n := c.with(map[string]SpecVal{id.Name: {T: bn, Typ: intType, Sort: "Int"}})
		body := n.tr(x.Args[3])
		rng := and(app("<=", lo.T, bn), app("<", bn, hi.T))
		if kind == "forall" {
			return bv(forall([][2]string{{bn, "Int"}}, implies(rng, body.T)))
		}
		return bv(exists([][2]string{{bn, "Int"}}, and(rng, body.T)))
	case 3:
		t := c.resolveType(x.Args[1])
		s := c.ft.d.sortOf(t)
		n := c.with(map[string]SpecVal{id.Name: {T: bn, Typ: t, Sort: s}})
		body := n.tr(x.Args[2])
		// quantifiers range over the whole sort (no allocation guard: it would make invariants non-inductive)
		ti := "true"
		if kind == "forall" {
			return bv(forall([][2]string{{bn, s}}, implies(ti, body.T)))
		}
		return bv(exists([][2]string{{bn, s}}, and(ti, body.T)))
	}
	c.fail("%s expects (i, lo, hi, P) or (x, T, P)", kind)
	return SpecVal{}
}

// nthRange finds the n-th (1-based) map Range instruction of the function.
func (ft *FT) nthRange(n Term) *ssa.Range {
	want, err := strconv.Atoi(n)
	if err != nil {
		return nil
	}
	k := 0
	for _, b := range ft.fn.Blocks {
		for _, ins := range b.Instrs {
			if r, ok := ins.(*ssa.Range); ok {
				if _, isMap := r.X.Type().Underlying().(*types.Map); isMap {
					k++
					if k == want {
						return r
					}
				}
			}
		}
	}
	return nil
}

func (c *SpecCtx) lookupFuncSig(e ast.Expr) *types.Signature {
	switch f := e.(type) {
	case *ast.Ident:
		if c.pkg != nil {
			if o, ok := c.pkg.Scope().Lookup(f.Name).(*types.Func); ok {
				return o.Type().(*types.Signature)
			}
		}
	case *ast.SelectorExpr:
		if id, ok := f.X.(*ast.Ident); ok {
			if p := c.findImport(id.Name); p != nil {
				if o, ok := p.Scope().Lookup(f.Sel.Name).(*types.Func); ok {
					return o.Type().(*types.Signature)
				}
			}
		}
	}
	c.fail("unknown function %s", exprString(e))
	return nil
}

// functionalUFs: uninterpreted length/content functions naming the result of a deterministic slice-returning function.
func (ft *FT) functionalUFs(fname string, argSorts []Sort, elem types.Type) (lenf, rowf string) {
	ln := "uf!" + fname + "!len"
	rn := "uf!" + fname + "!row"
	if len(argSorts) == 0 {
		ft.d.cnst(ln, "Int")
		ft.d.cnst(rn, arraySort("Int", ft.d.sortOf(elem)))
	} else {
		ft.d.fun(ln, argSorts, "Int")
		ft.d.fun(rn, argSorts, arraySort("Int", ft.d.sortOf(elem)))
	}
	return q(ln), q(rn)
}

// ghostKey declares the heap key of a ghost heap function.
func (ft *FT) ghostKey(sf *SpecFunc, ptypes []types.Type, rtype types.Type) (string, Sort) {
	key := "G!" + sf.Name
	srt := ft.d.sortOf(rtype)
	for i := len(ptypes) - 1; i >= 0; i-- {
		srt = arraySort(ft.d.sortOf(ptypes[i]), srt)
	}
	ft.keySort(key, srt)
	return key, srt
}

// ghostByName resolves a ghost heap declared in the contract files.
func (c *SpecCtx) ghostByName(name string) (*SpecFunc, []types.Type, types.Type) {
	var sf *SpecFunc
	if c.pkg != nil {
		sf = c.ft.eng.cons.Specs[pkgKey(c.pkg)+"."+name]
	}
	if sf == nil {
		sf = c.ft.eng.cons.Specs[name]
	}
	if sf == nil || !sf.Ghost {
		return nil, nil, nil
	}
	sc := *c
	sc.pkg = c.specPkg(sf)
	var ptypes []types.Type
	for i := range sf.PNames {
		ptypes = append(ptypes, sc.resolveType(sf.PTypes[i]))
	}
	var rtype types.Type = boolType
	if sf.Result != nil {
		rtype = sc.resolveType(sf.Result)
	}
	return sf, ptypes, rtype
}
