package main

import (
	"fmt"
	"go/token"
	"go/types"
	"os"
	"path/filepath"
	"sort"
	"strings"
	"sync"
	"time"

	"golang.org/x/tools/go/packages"
	"golang.org/x/tools/go/ssa"
	"golang.org/x/tools/go/ssa/ssautil"
)

type model interface {
	writes(ft *FT) []string
	writesCall(ft *FT, c *ssa.CallCommon) []string
	apply(ft *FT, st *State, guard Term, c *ssa.CallCommon, args []Term, pos token.Pos) []Term
}

type Engine struct {
	calleeNames map[string]bool
	dotImports  map[string][]*types.Package
	repo        string
	fset        *token.FileSet
	prog        *ssa.Program
	pkgs        []*packages.Package
	pkgByName   map[string]*types.Package
	cons        *Contracts
	models      map[string]model
	overlay     map[string][]byte
	fileCache   map[string][]string
	funcs       map[string]*ssa.Function
	workdir     string
	timeout     time.Duration
	mu          sync.Mutex
	loadSecs    float64
	known       map[string]bool // obligation names recorded as known findings
}

func goEnv() []string {
	env := os.Environ()
	path := "/opt/veriftools/go1.26.8/bin:" + os.Getenv("PATH")
	env = append(env, "GOFLAGS=-mod=mod", "GOPROXY=off", "GOSUMDB=off", "GOTOOLCHAIN=local", "PATH="+path)
	return env
}

func (e *Engine) fileLine(file string, line int) string {
	e.mu.Lock()
	defer e.mu.Unlock()
	ls, ok := e.fileCache[file]
	if !ok {
		b, err := readFileOrOverlay(file, e.overlay)
		if err == nil {
			ls = strings.Split(string(b), "\n")
		}
		e.fileCache[file] = ls
	}
	if line-1 < len(ls) && line >= 1 {
		return ls[line-1]
	}
	return ""
}

func loadEngine(repo string, patterns []string, overlay map[string][]byte, stdSpecs []string) (*Engine, error) {
	start := time.Now()
	e := &Engine{repo: repo, overlay: overlay, fileCache: map[string][]string{}, pkgByName: map[string]*types.Package{}, funcs: map[string]*ssa.Function{}, models: map[string]model{}}
	e.fset = token.NewFileSet()
	cfg := &packages.Config{
		Mode:       packages.LoadSyntax,
		Dir:        repo,
		BuildFlags: []string{"-tags=verif"},
		Fset:       e.fset,
		Overlay:    overlay,
		Env:        goEnv(),
	}
	pkgs, err := packages.Load(cfg, patterns...)
	if err != nil {
		return nil, err
	}
	var errs []string
	for _, p := range pkgs {
		for _, pe := range p.Errors {
			errs = append(errs, pe.Error())
		}
	}
	if len(errs) > 0 {
		return nil, fmt.Errorf("package errors: %s", strings.Join(errs, "; "))
	}
	e.pkgs = pkgs
	// dot imports per package (names of such packages are visible unqualified in contracts too)
	e.dotImports = map[string][]*types.Package{}
	for _, p := range pkgs {
		for _, f := range p.Syntax {
			for _, im := range f.Imports {
				if im.Name != nil && im.Name.Name == "." {
					path := strings.Trim(im.Path.Value, "\"")
					if ip := p.Imports[path]; ip != nil && ip.Types != nil {
						dup := false
						for _, q := range e.dotImports[p.Types.Path()] {
							dup = dup || q == ip.Types
						}
						if !dup {
							e.dotImports[p.Types.Path()] = append(e.dotImports[p.Types.Path()], ip.Types)
						}
					}
				}
			}
		}
	}
	prog, _ := ssautil.Packages(pkgs, ssa.InstantiateGenerics|ssa.GlobalDebug)
	prog.Build()
	e.prog = prog
	e.cons = newContracts()
	for _, sp := range stdSpecs {
		b, err := os.ReadFile(sp)
		if err != nil {
			return nil, err
		}
		e.cons.parseContractFile(sp, b, "")
	}
	var addPkg func(p *types.Package, depth int)
	addPkg = func(p *types.Package, depth int) {
		if _, ok := e.pkgByName[p.Name()]; !ok {
			e.pkgByName[p.Name()] = p
		}
		if depth > 0 {
			for _, ip := range p.Imports() {
				addPkg(ip, depth-1)
			}
		}
	}
	for _, p := range pkgs {
		e.pkgByName[p.Types.Name()] = p.Types
		e.pkgByName[pkgKey(p.Types)] = p.Types
	}
	for _, p := range pkgs {
		addPkg(p.Types, 2)
	}
	// contract files of every package of the repository (callee contracts are needed across packages)
	var cfiles []string
	filepath.WalkDir(repo, func(path string, d os.DirEntry, err error) error {
		if err != nil {
			return nil
		}
		if d.IsDir() && (d.Name() == ".git" || d.Name() == "node_modules") {
			return filepath.SkipDir
		}
		if !d.IsDir() && d.Name() == "contracts_verif.go" {
			cfiles = append(cfiles, path)
		}
		return nil
	})
	for f := range overlay {
		if filepath.Base(f) == "contracts_verif.go" {
			dup := false
			for _, c := range cfiles {
				if c == f {
					dup = true
				}
			}
			if !dup {
				cfiles = append(cfiles, f)
			}
		}
	}
	sort.Strings(cfiles)
	for _, f := range cfiles {
		b, err := readFileOrOverlay(f, overlay)
		if err != nil {
			return nil, err
		}
		e.cons.parseContractFile(f, b, filepath.Base(filepath.Dir(f)))
	}
	for fn := range ssautil.AllFunctions(prog) {
		if fn.Synthetic != "" && fn.Blocks == nil {
			continue
		}
		k := normName(fn.String())
		if old, dup := e.funcs[k]; dup {
			// prefer functions of the root packages
			if old.Pkg != nil && e.isRoot(old.Pkg.Pkg) {
				continue
			}
		}
		e.funcs[k] = fn
	}
	registerModels(e)
	e.known = map[string]bool{}
	for _, f := range loadFindings() {
		if f.Kind == "finding" {
			e.known[f.Obl] = true
		}
	}
	e.loadSecs = time.Since(start).Seconds()
	return e, nil
}

func (e *Engine) isRoot(p *types.Package) bool {
	for _, rp := range e.pkgs {
		if rp.Types == p {
			return true
		}
	}
	return false
}

// ---------------------------------------------------------------------------------------

func (e *Engine) newFT(fn *ssa.Function, con *FuncContract) *FT {
	return &FT{
		eng: e, fn: fn, key: normName(fn.String()), con: con, d: newDecls(), heaps: map[string]*heapInfo{},
		env: map[ssa.Value][]Term{}, locs: map[ssa.Value]*Loc{}, guard: map[*ssa.BasicBlock]Term{}, out: map[*ssa.BasicBlock]*State{},
		edge: map[[2]int]Term{}, nonFresh: map[string]bool{}, notes: map[string]bool{}, oblSeen: map[string]int{}, held: map[string]bool{},
	}
}

func (ft *FT) fnPkg() *types.Package {
	f := ft.fn
	for f != nil {
		if f.Pkg != nil {
			return f.Pkg.Pkg
		}
		f = f.Parent()
	}
	return nil
}

// specCtx: function-level spec context (parameters, receiver, captured variables).
func (ft *FT) specCtx(st, old *State) *SpecCtx {
	vars := map[string]SpecVal{}
	k := 0
	for i, p := range ft.fn.Params {
		sv := SpecVal{T: ft.env[p][0], Typ: p.Type(), Sort: ft.d.sortOf(p.Type())}
		vars[p.Name()] = sv
		// positional names (arg0, arg1, ... without the receiver), as at call sites: a parameter called `result` or `err`
		// is otherwise hidden by the result variables in postconditions
		if i == 0 && ft.fn.Signature.Recv() != nil {
			continue
		}
		vars[fmt.Sprintf("arg%d", k)] = sv
		k++
	}
	ctx := &SpecCtx{ft: ft, pkg: ft.fnPkg(), st: st, old: old, vars: vars}
	ctx.local = func(cc *SpecCtx, name string) (SpecVal, bool, error) {
		for _, fv := range ft.fn.FreeVars {
			if fv.Name() == name {
				return ft.derefFree(cc, ft.env[fv][0], fv.Type(), nil), true, nil
			}
		}
		return SpecVal{}, false, nil
	}
	return ctx
}

func domDepth(b *ssa.BasicBlock) int {
	d := 0
	for x := b.Idom(); x != nil; x = x.Idom() {
		d++
	}
	return d
}

// shadowHeader re-evaluates the side-effect-free prefix of a loop header under phi overrides.
func (ft *FT) shadowHeader(li *loopInfo, ov map[ssa.Value]Term, st *State) map[ssa.Value][]Term {
	saved := map[ssa.Value][]Term{}
	savedLocs := map[ssa.Value]*Loc{}
	var touched []ssa.Value
	sst := st.clone()
	nObl := len(ft.obls)
	oblSeen := map[string]int{}
	for k, v := range ft.oblSeen {
		oblSeen[k] = v
	}
	nErr := len(ft.errs)
	for v, t := range ov {
		if old, ok := ft.env[v]; ok {
			saved[v] = old
		}
		touched = append(touched, v)
		ft.env[v] = []Term{t}
	}
	res := map[ssa.Value][]Term{}
	for _, ins := range li.header.Instrs {
		if _, ok := ins.(*ssa.Phi); ok {
			continue
		}
		stop := false
		switch x := ins.(type) {
		case *ssa.Call, *ssa.Store, *ssa.MapUpdate, *ssa.Defer, *ssa.Go, *ssa.Send, *ssa.RunDefers, *ssa.Return, *ssa.If, *ssa.Jump, *ssa.Panic, *ssa.Next, *ssa.Select, *ssa.Alloc, *ssa.MakeMap, *ssa.MakeSlice, *ssa.MakeChan, *ssa.MakeClosure, *ssa.Range:
			stop = true
		case *ssa.UnOp:
			if x.Op == token.ARROW {
				stop = true
			}
		}
		if stop {
			break
		}
		v, isVal := ins.(ssa.Value)
		if isVal {
			if old, ok := ft.env[v]; ok {
				saved[v] = old
			}
			if old, ok := ft.locs[v]; ok {
				savedLocs[v] = old
			}
			touched = append(touched, v)
		}
		ft.instr(ins, sst, "false")
		if isVal {
			res[v] = ft.env[v]
		}
	}
	// shadow evaluation must not leave obligations behind
	ft.obls = ft.obls[:nObl]
	ft.oblSeen = oblSeen
	ft.errs = ft.errs[:nErr]
	shadowLocs := map[ssa.Value]*Loc{}
	for _, v := range touched {
		if l, ok := ft.locs[v]; ok {
			shadowLocs[v] = l
		}
		if old, ok := saved[v]; ok {
			ft.env[v] = old
		} else {
			delete(ft.env, v)
		}
		if old, ok := savedLocs[v]; ok {
			ft.locs[v] = old
		} else {
			delete(ft.locs, v)
		}
	}
	for v, t := range ov {
		res[v] = []Term{t}
	}
	return res
}

// loopCtx: spec context for the invariants of loop li, evaluated with header phis = ov in state st.
func (ft *FT) loopCtx(li *loopInfo, st *State, ov map[ssa.Value]Term, pre *State) *SpecCtx {
	base := ft.specCtx(st, ft.entry)
	base.pre = pre
	shadow := ft.shadowHeader(li, ov, st)
	fallback := base.local
	base.local = ft.localResolver(li.header, true, shadow, ov, fallback)
	if li.entryOv != nil && pre != nil {
		base.preLocal = ft.localResolver(li.header, true, ft.shadowHeader(li, li.entryOv, pre), li.entryOv, fallback)
	}
	return base
}

// localResolver resolves source-level local variables at the entry of block `at` (atHead: `at` is a
// loop header whose phis are given by ov and whose side-effect-free prefix is in shadow) or at the
// end of block `at` (atHead false: every value defined in `at` or a dominator is visible).
func (ft *FT) localResolver(at *ssa.BasicBlock, atHead bool, shadow map[ssa.Value][]Term, ov map[ssa.Value]Term, fallback func(*SpecCtx, string) (SpecVal, bool, error)) func(*SpecCtx, string) (SpecVal, bool, error) {
	return func(cc *SpecCtx, name string) (SpecVal, bool, error) {
		if atHead && name == "rangeidx" {
			// the index of a `for _, x := range s` loop: the rangeindex phi + 1
			for _, ins := range at.Instrs {
				if b, ok := ins.(*ssa.BinOp); ok && b.Op == token.ADD {
					if phi, ok := b.X.(*ssa.Phi); ok && phi.Comment == "rangeindex" {
						if ts, ok := shadow[b]; ok && len(ts) == 1 {
							return SpecVal{T: ts[0], Typ: b.Type(), Sort: "Int"}, true, nil
						}
					}
				}
			}
		}
		if atHead {
			for _, ins := range at.Instrs {
				phi, ok := ins.(*ssa.Phi)
				if !ok {
					break
				}
				if phi.Comment == name {
					if t, ok := ov[phi]; ok {
						return SpecVal{T: t, Typ: phi.Type(), Sort: ft.d.sortOf(phi.Type())}, true, nil
					}
				}
			}
		}
		type cand struct {
			v      ssa.Value
			isAddr bool
			depth  int
			idx    int
			inHead bool
			obj    types.Object
		}
		var best *cand
		// a variable that lives in a cell (address taken: &v passed on, captured by a closure) is read from the cell
		// in the current state - an earlier load of it recorded by a DebugRef is stale after a later store
		addrOf := map[types.Object]*cand{}
		consider := func(c cand) {
			if c.isAddr && c.obj != nil {
				cp := c
				addrOf[c.obj] = &cp
			}
			if best == nil || c.depth > best.depth || (c.depth == best.depth && c.idx > best.idx) {
				cp := c
				best = &cp
			}
		}
		visible := func(db *ssa.BasicBlock) bool {
			if db == at {
				return true
			}
			return db.Dominates(at)
		}
		for _, b := range ft.fn.Blocks {
			for _, ins := range b.Instrs {
				switch x := ins.(type) {
				case *ssa.DebugRef:
					if x.Object() == nil || x.Object().Name() != name {
						continue
					}
					if _, isVar := x.Object().(*types.Var); !isVar {
						continue
					}
					var db *ssa.BasicBlock
					idx := 0
					switch d := x.X.(type) {
					case ssa.Instruction:
						db = d.Block()
						idx = indexInBlock(d)
					case *ssa.Parameter, *ssa.FreeVar:
						db = ft.fn.Blocks[0]
						idx = -1
					default:
						continue
					}
					if !visible(db) {
						continue
					}
					if x.IsAddr {
						consider(cand{v: x.X, isAddr: true, depth: domDepth(db), idx: idx, obj: x.Object()})
						continue
					}
					// a use recorded as a load from the variable's cell (*alloc, *freevar: a variable captured by a
					// closure): the variable lives in that cell
					if u, ok := x.X.(*ssa.UnOp); ok && u.Op == token.MUL {
						switch a := u.X.(type) {
						case *ssa.FreeVar:
							cp := cand{v: a, isAddr: true, depth: 0, idx: -1, obj: x.Object()}
							addrOf[x.Object()] = &cp
						case *ssa.Alloc:
							if visible(a.Block()) {
								cp := cand{v: a, isAddr: true, depth: domDepth(a.Block()), idx: indexInBlock(a), obj: x.Object()}
								addrOf[x.Object()] = &cp
							}
						}
					}
					if db == at && atHead {
						if _, ok := shadow[x.X]; ok {
							consider(cand{v: x.X, depth: domDepth(db), idx: idx, inHead: true, obj: x.Object()})
						}
						continue
					}
					if _, isInstr := x.X.(ssa.Instruction); isInstr {
						if _, done := ft.env[x.X]; !done {
							continue // not yet translated at this program point
						}
					}
					consider(cand{v: x.X, depth: domDepth(db), idx: idx, obj: x.Object()})
				case *ssa.Phi:
					if x.Comment == name && visible(b) && !(b == at && atHead) {
						consider(cand{v: x, depth: domDepth(b), idx: 0})
					}
				}
			}
		}
		if best != nil && !best.isAddr && best.obj != nil && addrOf[best.obj] != nil {
			best = addrOf[best.obj]
		}
		if best != nil {
			if best.isAddr {
				var l *Loc
				if ll, ok := ft.locs[best.v]; ok {
					l = ll
				} else {
					l = ft.locOf(best.v)
				}
				return cc.mk(ft.load(cc.st, l), deref(best.v.Type())), true, nil
			}
			if best.inHead {
				ts := shadow[best.v]
				if len(ts) == 1 {
					return SpecVal{T: ts[0], Typ: best.v.Type(), Sort: ft.d.sortOf(best.v.Type())}, true, nil
				}
			}
			if ts, ok := ft.env[best.v]; ok && len(ts) == 1 {
				return SpecVal{T: ts[0], Typ: best.v.Type(), Sort: ft.d.sortOf(best.v.Type())}, true, nil
			}
			if _, isC := best.v.(*ssa.Const); isC {
				return SpecVal{T: ft.val(best.v), Typ: best.v.Type(), Sort: ft.d.sortOf(best.v.Type())}, true, nil
			}
		}
		if fallback != nil {
			return fallback(cc, name)
		}
		return SpecVal{}, false, nil
	}
}

// exitObligations: postconditions and frame at a return.
func (ft *FT) exitObligations(pos token.Pos, st *State, guard Term, results []Term, isPanic bool) {
	if ft.con == nil {
		return
	}
	ctx := ft.specCtx(st, ft.entry)
	if ft.curBlk != nil {
		ctx.local = ft.localResolver(ft.curBlk, false, nil, nil, ctx.local)
	}
	sig := ft.fn.Signature
	for i := 0; i < sig.Results().Len() && i < len(results); i++ {
		rt := sig.Results().At(i).Type()
		sv := SpecVal{T: results[i], Typ: rt, Sort: ft.d.sortOf(rt)}
		ctx.vars[fmt.Sprintf("result%d", i)] = sv
		if i == 0 {
			ctx.vars["result"] = sv
		}
		if n := sig.Results().At(i).Name(); n != "" && n != "_" {
			ctx.vars[n] = sv
		}
		if i == sig.Results().Len()-1 && isErrorType(rt) {
			if _, dup := ctx.vars["err"]; !dup {
				ctx.vars["err"] = sv
			}
		}
	}
	clauses := ft.con.Ensures
	kind := "post"
	if isPanic {
		clauses = ft.con.EnsuresP
		kind = "post-on-panic"
	}
	if !isPanic {
		clauses = append(append([]*Clause{}, clauses...), ft.con.Checks...)
	}
	for _, e := range clauses {
		if e.Assumed {
			continue
		}
		t, err := ctx.boolExpr(e.Expr)
		if err != nil {
			if e.WhereDefined && strings.Contains(err.Error(), "unknown identifier") {
				e.skipped = err.Error()
				continue
			}
			ft.errf("ensures %q: %v", e.Text, err)
			continue
		}
		e.sites++
		ft.oblige(kind, token.NoPos, e.Text+" @ "+ft.srcText(pos), guard, t, true)
	}
	if ft.con.HasMod && !ft.con.Trusted {
		ft.frameObligations(pos, st, guard)
	}
	// lock discipline: what the function locked on its own parameters is released on every exit
	if ft.lockDiscipline() {
		ectx := ft.specCtx(ft.entry, ft.entry)
		for _, txt := range directParamLocks(ft.fn) {
			if l, ok := ft.lockExprTerm(ectx, txt); ok {
				ft.oblige("lock-balance", token.NoPos, txt+" released @ "+ft.srcText(pos), guard, eq(app("select", ft.get(st, heldKey(ft)), l), "0"), true)
			}
		}
	}
}

// frameTargets: modifies targets of the function under verification, evaluated at entry.
func (ft *FT) frameTargets() (byKey map[string][]Term, whole map[string]bool, all bool) {
	byKey = map[string][]Term{}
	whole = map[string]bool{}
	ctx := ft.specCtx(ft.entry, ft.entry)
	ts, all, err := ft.modTargets(ctx, ft.con.Modifies)
	if err != nil {
		ft.errf("%v", err)
	}
	for _, t := range ts {
		if t.obj == "" {
			whole[t.key] = true
		} else {
			byKey[t.key] = append(byKey[t.key], t.obj)
		}
	}
	return byKey, whole, all
}

func privateKey(k string) bool {
	return strings.HasPrefix(k, "L!") || strings.HasPrefix(k, "D!") || strings.HasPrefix(k, "VIS!") || k == "$next" || k == "HELD" || k == "CLOSED" || strings.HasPrefix(k, "G!") || k == "$clock" || k == "$panicking"
}

// frameFormula: key k differs from its entry version only at declared or fresh objects.
func (ft *FT) frameFormula(st *State, k string, byKey map[string][]Term) Term {
	hi := ft.heaps[k]
	cur, old := ft.get(st, k), ft.get(ft.entry, k)
	if cur == old {
		return "true"
	}
	if !strings.HasPrefix(hi.sort, "(Array Int ") {
		if len(byKey[k]) > 0 {
			return "true"
		}
		return eq(cur, old)
	}
	conds := []Term{app("<", "r", ft.get(ft.entry, "$next"))}
	for _, o := range byKey[k] {
		conds = append(conds, not(eq("r", o)))
	}
	return forall([][2]string{{"r", "Int"}}, implies(and(conds...), eq(app("select", cur, "r"), app("select", old, "r"))))
}

func (ft *FT) frameObligations(pos token.Pos, st *State, guard Term) {
	byKey, whole, all := ft.frameTargets()
	if all {
		return
	}
	blocks := map[*ssa.BasicBlock]bool{}
	for _, b := range ft.fn.Blocks {
		blocks[b] = true
	}
	keys, wall := ft.writtenKeys(blocks)
	if wall {
		ft.oblige("frame", token.NoPos, "function with a modifies clause calls code without a frame @ "+ft.srcText(pos), guard, "false", true)
		return
	}
	for k := range st.m {
		keys[k] = true
	}
	for _, k := range sortedKeys(keys) {
		if privateKey(k) || whole[k] || ft.heaps[k] == nil {
			continue
		}
		f := ft.frameFormula(st, k, byKey)
		if f == "true" {
			continue
		}
		ft.oblige("frame", token.NoPos, k+" @ "+ft.srcText(pos), guard, f, true)
	}
}

// ---------------------------------------------------------------------------------------
// running a function

type OblResult struct {
	Obl     *Obl
	Status  string // discharged | failed | undecided | cover-ok | cover-vacuous | error
	Solver  string
	Seconds float64
	Model   string
	Raw     string
	Query   string
}

type FuncResult struct {
	Key      string
	Results  []*OblResult
	Notes    []string
	Errors   []string
	Loops    int
	VCBytes  int
	Seconds  float64
	Trusted  bool
	Contract *FuncContract
}

func (e *Engine) verifyFunc(key string, sem chan struct{}) *FuncResult {
	start := time.Now()
	fr := &FuncResult{Key: key}
	fn := e.funcs[key]
	con := e.cons.Funcs[key]
	fr.Contract = con
	if fn == nil {
		fr.Errors = append(fr.Errors, "function not found in the program: "+key)
		return fr
	}
	if fn.Blocks == nil {
		fr.Errors = append(fr.Errors, "function has no body: "+key)
		return fr
	}
	ft := e.newFT(fn, con)
	if con != nil {
		for _, c := range con.Checks {
			c.sites = 0
		}
		for _, c := range con.AssertAt {
			c.sites = 0
		}
		for _, g := range con.GhostAt {
			g.sites = 0
		}
		for _, cs := range con.CallPre {
			for _, c := range cs {
				c.sites = 0
			}
		}
	}
	ft.run()
	fr.Errors = append(fr.Errors, ft.errs...)
	if con != nil {
		for n, cs := range con.CallPre {
			for _, c := range cs {
				if c.WhereDefined && c.sites == 0 {
					fr.Errors = append(fr.Errors, fmt.Sprintf("callpreif %s %q applies at no call site (%s)", n, c.Text, c.skipped))
				}
				if c.sites == 0 && !e.calleeKnown(n) {
					// vacuity guard: a call-site precondition keyed by a name no function has checks nothing
					fr.Errors = append(fr.Errors, fmt.Sprintf("callpre %s %q: no function of that name in the program (contract typo?)", n, c.Text))
				} else if c.sites == 0 && c.Must {
					// vacuity guard: the function no longer calls what the clause constrains (the call may have moved
					// into a helper, out of reach of this contract)
					fr.Errors = append(fr.Errors, fmt.Sprintf("callpre %s %q applies at no call site of this function", n, c.Text))
				}
			}
		}
		for _, g := range con.GhostAt {
			if g.sites == 0 {
				fr.Errors = append(fr.Errors, fmt.Sprintf("ghostat %q#%d: no such source line in the function", g.Loc, g.Nth))
			}
		}
		for _, c := range con.AssertAt {
			if c.sites == 0 {
				fr.Errors = append(fr.Errors, fmt.Sprintf("assertat %q#%d %q: no such source line in the function", c.Loc, c.Nth, c.Text))
			}
		}
		for _, c := range con.Checks {
			if c.WhereDefined && c.sites == 0 {
				fr.Errors = append(fr.Errors, fmt.Sprintf("checkif %q applies at no return (%s)", c.Text, c.skipped))
			}
		}
	}
	if con != nil && con.Functional {
		fr.Errors = append(fr.Errors, e.checkFunctional(fn)...)
	}
	for n := range ft.notes {
		fr.Notes = append(fr.Notes, n)
	}
	sort.Strings(fr.Notes)
	fr.Loops = len(ft.loops)
	for _, li := range ft.loops {
		if li.con == nil {
			fr.Notes = append(fr.Notes, fmt.Sprintf("loop %d has no invariant (treated as 'true')", li.ordinal))
		}
	}
	if con != nil {
		for n := range con.Loops {
			if n > len(ft.loops) {
				fr.Errors = append(fr.Errors, fmt.Sprintf("contract names loop %d but the function has %d loops", n, len(ft.loops)))
			}
		}
	}
	decls := ft.d.render()
	var wg sync.WaitGroup
	results := make([]*OblResult, len(ft.obls))
	for i, o := range ft.obls {
		var b strings.Builder
		b.WriteString("; obligation: " + strings.ReplaceAll(o.Name, "\n", " ") + "\n")
		b.WriteString(decls)
		for _, a := range ft.asserts[:o.NAssert] {
			b.WriteString(a)
			b.WriteByte('\n')
		}
		if o.Cover {
			b.WriteString("(assert " + o.Guard + ")\n")
		} else {
			b.WriteString("(assert " + and(o.Guard, not(o.Goal)) + ")\n")
		}
		query := b.String()
		if len(query) > fr.VCBytes {
			fr.VCBytes = len(query)
		}
		if len(query) > 4<<20 {
			results[i] = &OblResult{Obl: o, Status: "error", Solver: "none", Raw: fmt.Sprintf("VC too large (%d bytes): split or abstract the function", len(query))}
			continue
		}
		if !o.Cover && (o.Goal == "true" || o.Guard == "false") {
			results[i] = &OblResult{Obl: o, Status: "discharged", Solver: "trivial"}
			continue
		}
		wg.Add(1)
		go func(i int, o *Obl, query string) {
			defer wg.Done()
			sem <- struct{}{}
			defer func() { <-sem }()
			var r SolveResult
			if !o.Required && !o.Cover {
				// advisory obligation: one quick attempt, never gates the check
				f := filepath.Join(e.workdir, sanitizeFile(fmt.Sprintf("%s.%d", key, i))+".smt2")
				_ = os.WriteFile(f, []byte(query+"(check-sat)\n"), 0o644)
				r = poolSolve(query, 1*time.Second, false)
			} else if o.Cover {
				// vacuity cover: only an `unsat` answer matters; a quick single-solver attempt suffices
				f := filepath.Join(e.workdir, sanitizeFile(fmt.Sprintf("%s.%d", key, i))+".smt2")
				_ = os.WriteFile(f, []byte(query+"(check-sat)\n"), 0o644)
				r = poolSolve(query, 2*time.Second, false)
			} else if e.known[o.Name] {
				// a recorded finding: one short attempt tells whether it still fails; racing the whole
				// portfolio for the full budget on a goal known to be unprovable only burns time
				r = poolSolve(query, 3*time.Second, false)
			} else {
				r = solve(e.workdir, fmt.Sprintf("%s.%d", key, i), query, e.timeout, true)
			}
			or := &OblResult{Obl: o, Solver: r.Solver, Seconds: r.Seconds, Raw: r.Raw, Query: filepath.Join(e.workdir, sanitizeFile(fmt.Sprintf("%s.%d", key, i))+".smt2")}
			switch {
			case o.Cover && r.Status == "sat":
				or.Status = "cover-ok"
			case o.Cover && r.Status == "unsat":
				or.Status = "cover-vacuous"
			case o.Cover:
				or.Status = "cover-ok" // undecided reachability is not vacuity
			case r.Status == "unsat":
				or.Status = "discharged"
			case r.Status == "sat":
				or.Status = "failed"
				or.Model = r.Model
			case r.Status == "error":
				or.Status = "error"
			default:
				or.Status = "undecided"
			}
			results[i] = or
		}(i, o, query)
	}
	wg.Wait()
	fr.Results = results
	fr.Seconds = time.Since(start).Seconds()
	return fr
}

// pkgKey: the name under which a package's functions, contracts and spec functions are keyed:
// the last element of its import path (so that package main of cmd/glyph is "glyph").
func pkgKey(p *types.Package) string {
	path := p.Path()
	if i := strings.LastIndex(path, "/"); i >= 0 {
		path = path[i+1:]
	}
	return path
}

// calleeKnown: name is the callName of some function, method or interface method of the loaded program.
func (e *Engine) calleeKnown(name string) bool {
	if e.funcs[name] != nil {
		return true
	}
	if e.calleeNames == nil {
		e.calleeNames = map[string]bool{}
		for fn := range ssautil.AllFunctions(e.prog) {
			for _, b := range fn.Blocks {
				for _, ins := range b.Instrs {
					if c, ok := ins.(ssa.CallInstruction); ok {
						ft := &FT{eng: e, fn: fn}
						n, _, _ := ft.callName(c.Common())
						e.calleeNames[n] = true
					}
				}
			}
		}
	}
	if e.calleeNames[name] {
		return true
	}
	// library functions and methods: resolve the name through the type information of the imported packages
	lookupPkg := func(n string) *types.Package { return e.pkgByName[n] }
	if strings.HasPrefix(name, "(") {
		i := strings.Index(name, ").")
		if i < 0 {
			return false
		}
		recv, meth := strings.TrimPrefix(name[1:i], "*"), name[i+2:]
		j := strings.LastIndex(recv, ".")
		if j < 0 {
			return false
		}
		p := lookupPkg(recv[:j])
		if p == nil {
			return false
		}
		tn, ok := p.Scope().Lookup(recv[j+1:]).(*types.TypeName)
		if !ok {
			return false
		}
		obj, _, _ := types.LookupFieldOrMethod(types.NewPointer(tn.Type()), true, p, meth)
		if obj == nil {
			obj, _, _ = types.LookupFieldOrMethod(tn.Type(), true, p, meth)
		}
		_, isFunc := obj.(*types.Func)
		return isFunc
	}
	if j := strings.Index(name, "."); j > 0 && !strings.Contains(name, "$") {
		if p := lookupPkg(name[:j]); p != nil {
			_, isFunc := p.Scope().Lookup(name[j+1:]).(*types.Func)
			return isFunc
		}
	}
	return false
}
