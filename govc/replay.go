package main

// tryReplay renders a solver model into a concrete call of the real function (where the
// function's inputs are scalars/strings) and runs it through `go test -overlay`.
func (e *Engine) tryReplay(fnKey string, r *OblResult, dir string, n int) string {
	return ""
}
