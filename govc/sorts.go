package main

import (
	"fmt"
	"go/types"
	"hash/fnv"
	"sort"
	"strings"
)

// Decls collects SMT declarations in dependency order for one query family (one function).
type Decls struct {
	lines    []string
	have     map[string]bool
	typeIDs  map[string]int // type string -> id (shared across engine for stability)
	typeByID map[int]types.Type
	strLits  map[string]string // literal -> const name
	strOrder []string
	structs  map[string]*types.Struct
	boxes    map[string]bool
	ptrBoxes []ptrBox // boxed pointer types (payloads of interface parameters are allocated objects)
	axioms   []string
}

func newDecls() *Decls {
	d := &Decls{have: map[string]bool{}, typeIDs: map[string]int{}, typeByID: map[int]types.Type{}, strLits: map[string]string{}, structs: map[string]*types.Struct{}, boxes: map[string]bool{}}
	d.raw("sort Str", "(declare-sort Str 0)")
	d.raw("sort F64", "(declare-sort F64 0)")
	d.raw("sort Iface", "(declare-sort Iface 0)")
	d.raw("dt Slice", "(declare-datatypes ((Slice 0)) (((mk-slice (sl-base Int) (sl-off Int) (sl-len Int) (sl-cap Int)))))")
	d.raw("slen", "(declare-fun slen (Str) Int)")
	d.raw("sat", "(declare-fun sat (Str Int) Int)")
	d.raw("slen-ax", "(assert (forall ((s Str)) (! (and (>= (slen s) 0) (<= (slen s) 1152921504606846976)) :pattern ((slen s)))))")
	d.raw("sat-ax", "(assert (forall ((s Str) (i Int)) (! (and (<= 0 (sat s i)) (<= (sat s i) 255)) :pattern ((sat s i)))))")
	d.raw("str!empty", "(declare-const str!empty Str)")
	d.raw("str!empty-ax", "(assert (= (slen str!empty) 0))")
	d.raw("str!empty-ax2", "(assert (forall ((s Str)) (! (=> (= (slen s) 0) (= s str!empty)) :pattern ((slen s)))))")
	d.raw("dyn", "(declare-fun dyn (Iface) Int)")
	d.raw("iface!nil", "(declare-const iface!nil Iface)")
	d.raw("iface!nil-ax", "(assert (= (dyn iface!nil) 0))")
	d.raw("iface!nil-ax2", "(assert (forall ((i Iface)) (! (=> (= (dyn i) 0) (= i iface!nil)) :pattern ((dyn i)))))")
	d.raw("f64!zero", "(declare-const f64!zero F64)")
	d.raw("wrap64", "(define-fun wrap64 ((x Int)) Int (ite (and (<= (- 9223372036854775808) x) (<= x 9223372036854775807)) x (- (mod (+ x 9223372036854775808) 18446744073709551616) 9223372036854775808)))")
	d.raw("wrapu64", "(define-fun wrapu64 ((x Int)) Int (ite (and (<= 0 x) (<= x 18446744073709551615)) x (mod x 18446744073709551616)))")
	d.raw("wrap32", "(define-fun wrap32 ((x Int)) Int (ite (and (<= (- 2147483648) x) (<= x 2147483647)) x (- (mod (+ x 2147483648) 4294967296) 2147483648)))")
	d.raw("wrapu32", "(define-fun wrapu32 ((x Int)) Int (ite (and (<= 0 x) (<= x 4294967295)) x (mod x 4294967296)))")
	d.raw("wrap16", "(define-fun wrap16 ((x Int)) Int (ite (and (<= (- 32768) x) (<= x 32767)) x (- (mod (+ x 32768) 65536) 32768)))")
	d.raw("wrapu16", "(define-fun wrapu16 ((x Int)) Int (ite (and (<= 0 x) (<= x 65535)) x (mod x 65536)))")
	d.raw("wrap8", "(define-fun wrap8 ((x Int)) Int (ite (and (<= (- 128) x) (<= x 127)) x (- (mod (+ x 128) 256) 128)))")
	d.raw("wrapu8", "(define-fun wrapu8 ((x Int)) Int (ite (and (<= 0 x) (<= x 255)) x (mod x 256)))")
	d.raw("tdiv", "(define-fun tdiv ((a Int) (b Int)) Int (ite (>= a 0) (ite (> b 0) (div a b) (- (div a (- b)))) (ite (> b 0) (- (div (- a) b)) (div (- a) (- b)))))")
	d.raw("tmod", "(define-fun tmod ((a Int) (b Int)) Int (- a (* b (tdiv a b))))")
	return d
}

func (d *Decls) raw(key, line string) {
	if d.have[key] {
		return
	}
	d.have[key] = true
	d.lines = append(d.lines, line)
}

func (d *Decls) fun(name string, args []Sort, res Sort) {
	d.raw("fun "+name, fmt.Sprintf("(declare-fun %s (%s) %s)", q(name), strings.Join(args, " "), res))
}

func (d *Decls) cnst(name string, s Sort) {
	d.raw("fun "+name, fmt.Sprintf("(declare-const %s %s)", q(name), s))
}

// axiom: assertions over declared symbols; rendered after the string-literal constants they may mention.
func (d *Decls) axiom(key, t Term) {
	if d.have["ax "+key] {
		return
	}
	d.have["ax "+key] = true
	d.axioms = append(d.axioms, "(assert "+t+")")
}

func (d *Decls) typeID(t types.Type) int {
	if t == nil {
		return 0
	}
	s := types.TypeString(t, nil)
	if id, ok := d.typeIDs[s]; ok {
		return id
	}
	// stable id: hash of the type string (collisions are practically impossible within a query)
	h := fnv.New32a()
	h.Write([]byte(s))
	id := int(h.Sum32()%1000000007) + 1
	for d.typeByID[id] != nil {
		id++
	}
	d.typeIDs[s] = id
	d.typeByID[id] = t
	return id
}

func typeKeyName(t types.Type) string {
	s := types.TypeString(t, func(p *types.Package) string {
		path := p.Path()
		if strings.HasPrefix(path, "internal/") || strings.Contains(path, "/internal/") || strings.HasPrefix(path, "vendor/") {
			return strings.ReplaceAll(path, "/", "_")
		}
		if i := strings.LastIndex(path, "/"); i >= 0 {
			path = path[i+1:]
		}
		return path
	})
	return s
}

func isOpaqueInt(t types.Type) bool {
	if n, ok := t.(*types.Named); ok && n.Obj().Pkg() != nil {
		full := n.Obj().Pkg().Path() + "." + n.Obj().Name()
		switch full {
		case "time.Time":
			return true
		}
	}
	return false
}

// sortOf maps a Go type to its SMT sort.
func (d *Decls) sortOf(t types.Type) Sort {
	if isOpaqueInt(t) {
		return "Int"
	}
	switch u := t.Underlying().(type) {
	case *types.Basic:
		switch {
		case u.Info()&types.IsBoolean != 0:
			return "Bool"
		case u.Info()&types.IsInteger != 0:
			return "Int"
		case u.Info()&types.IsFloat != 0:
			return "F64"
		case u.Info()&types.IsString != 0:
			return "Str"
		case u.Kind() == types.UnsafePointer:
			return "Int"
		case u.Kind() == types.UntypedNil:
			return "Int"
		case u.Info()&types.IsComplex != 0:
			return "F64"
		}
		return "Int"
	case *types.Pointer, *types.Map, *types.Chan, *types.Signature:
		return "Int"
	case *types.Slice:
		return "Slice"
	case *types.Array:
		return arraySort("Int", d.sortOf(u.Elem()))
	case *types.Interface:
		return "Iface"
	case *types.Struct:
		return d.structSort(t, u)
	case *types.Tuple:
		return "Int"
	case *types.TypeParam:
		return "Iface"
	}
	return "Int"
}

func (d *Decls) structName(t types.Type) string {
	if n, ok := t.(*types.Named); ok {
		return "S!" + typeKeyName(n)
	}
	if a, ok := t.(*types.Alias); ok {
		return d.structName(types.Unalias(a))
	}
	h := fnv.New32a()
	h.Write([]byte(types.TypeString(t, nil)))
	return fmt.Sprintf("S!anon%x", h.Sum32())
}

func fieldAcc(sname string, i int, name string) string {
	if name == "_" {
		name = fmt.Sprintf("_%d", i)
	}
	return q(fmt.Sprintf("%s.%s", sname, name))
}

func (d *Decls) structSort(t types.Type, st *types.Struct) Sort {
	name := d.structName(t)
	if d.have["dt "+name] {
		return q(name)
	}
	d.have["dt "+name] = true
	d.structs[name] = st
	if st.NumFields() == 0 {
		d.lines = append(d.lines, fmt.Sprintf("(declare-datatypes ((%s 0)) (((%s))))", q(name), q("mk!"+name)))
		return q(name)
	}
	var fs []string
	for i := 0; i < st.NumFields(); i++ {
		f := st.Field(i)
		fs = append(fs, fmt.Sprintf("(%s %s)", fieldAcc(name, i, f.Name()), d.sortOf(f.Type())))
	}
	d.lines = append(d.lines, fmt.Sprintf("(declare-datatypes ((%s 0)) (((%s %s))))", q(name), q("mk!"+name), strings.Join(fs, " ")))
	return q(name)
}

// zero returns the zero value term of a Go type.
func (d *Decls) zero(t types.Type) Term {
	if isOpaqueInt(t) {
		return "0"
	}
	switch u := t.Underlying().(type) {
	case *types.Basic:
		switch {
		case u.Info()&types.IsBoolean != 0:
			return "false"
		case u.Info()&types.IsInteger != 0:
			return "0"
		case u.Info()&types.IsFloat != 0:
			return "f64!zero"
		case u.Info()&types.IsString != 0:
			return "str!empty"
		}
		return "0"
	case *types.Pointer, *types.Map, *types.Chan, *types.Signature:
		return "0"
	case *types.Slice:
		return "(mk-slice 0 0 0 0)"
	case *types.Array:
		return fmt.Sprintf("((as const %s) %s)", d.sortOf(t), d.zero(u.Elem()))
	case *types.Interface:
		return "iface!nil"
	case *types.Struct:
		s := d.structSort(t, u)
		if u.NumFields() == 0 {
			return q("mk!" + d.structName(t))
		}
		var as []Term
		for i := 0; i < u.NumFields(); i++ {
			as = append(as, d.zero(u.Field(i).Type()))
		}
		_ = s
		return app(q("mk!"+d.structName(t)), as...)
	}
	return "0"
}

// strLit returns the constant naming a string literal.
func (d *Decls) strLit(s string) Term {
	if s == "" {
		return "str!empty"
	}
	if n, ok := d.strLits[s]; ok {
		return n
	}
	n := fmt.Sprintf("str!lit%d", len(d.strLits))
	d.strLits[s] = n
	d.strOrder = append(d.strOrder, s)
	return n
}

// strLitDecls renders the declarations for string literals (emitted after all other decls).
func (d *Decls) strLitDecls() []string {
	var out []string
	var names []string
	for _, s := range d.strOrder {
		n := d.strLits[s]
		names = append(names, n)
		out = append(out, fmt.Sprintf("(declare-const %s Str)", n))
		out = append(out, fmt.Sprintf("(assert (= (slen %s) %d))", n, len(s)))
		if len(s) <= 48 {
			for i := 0; i < len(s); i++ {
				out = append(out, fmt.Sprintf("(assert (= (sat %s %d) %d))", n, i, s[i]))
			}
		}
	}
	if len(names) > 1 {
		out = append(out, "(assert (distinct "+strings.Join(names, " ")+"))")
	}
	return out
}

// intRange returns (lo, hi, wrapfn) for sized integer types.
func intRange(t types.Type) (lo, hi string, wrap string, ok bool) {
	b, isb := t.Underlying().(*types.Basic)
	if !isb || b.Info()&types.IsInteger == 0 {
		return
	}
	switch b.Kind() {
	case types.Int, types.Int64, types.UntypedInt, types.UntypedRune:
		return "(- 9223372036854775808)", "9223372036854775807", "wrap64", true
	case types.Uint, types.Uint64, types.Uintptr:
		return "0", "18446744073709551615", "wrapu64", true
	case types.Int32:
		return "(- 2147483648)", "2147483647", "wrap32", true
	case types.Uint32:
		return "0", "4294967295", "wrapu32", true
	case types.Int16:
		return "(- 32768)", "32767", "wrap16", true
	case types.Uint16:
		return "0", "65535", "wrapu16", true
	case types.Int8:
		return "(- 128)", "127", "wrap8", true
	case types.Uint8:
		return "0", "255", "wrapu8", true
	}
	return
}

// box function for a concrete type into Iface.
type ptrBox struct {
	unbox string
	id    int
}

func (d *Decls) box(t types.Type) (boxf, unboxf string, id int) {
	id = d.typeID(t)
	key := typeKeyName(t)
	boxf = q("box!" + key)
	unboxf = q("unbox!" + key)
	if !d.boxes[key] {
		d.boxes[key] = true
		s := d.sortOf(t)
		d.raw("fun box!"+key, fmt.Sprintf("(declare-fun %s (%s) Iface)", boxf, s))
		d.raw("fun unbox!"+key, fmt.Sprintf("(declare-fun %s (Iface) %s)", unboxf, s))
		d.raw("ax box!"+key, fmt.Sprintf("(assert (forall ((x %s)) (! (and (= (%s (%s x)) x) (= (dyn (%s x)) %d)) :pattern ((%s x)))))", s, unboxf, boxf, boxf, id, boxf))
		if _, isPtr := t.Underlying().(*types.Pointer); isPtr {
			d.ptrBoxes = append(d.ptrBoxes, ptrBox{unboxf, id})
		}
		d.raw("ax unbox!"+key, fmt.Sprintf("(assert (forall ((i Iface)) (! (=> (= (dyn i) %d) (= (%s (%s i)) i)) :pattern ((%s i)))))", id, boxf, unboxf, unboxf))
	}
	return
}

func (d *Decls) render() string {
	var b strings.Builder
	for _, l := range d.lines {
		b.WriteString(l)
		b.WriteByte('\n')
	}
	for _, l := range d.strLitDecls() {
		b.WriteString(l)
		b.WriteByte('\n')
	}
	for _, l := range d.axioms {
		b.WriteString(l)
		b.WriteByte('\n')
	}
	return b.String()
}

func sortedKeys[V any](m map[string]V) []string {
	ks := make([]string, 0, len(m))
	for k := range m {
		ks = append(ks, k)
	}
	sort.Strings(ks)
	return ks
}
