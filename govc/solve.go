package main

import (
	"bufio"
	"bytes"
	"context"
	"fmt"
	"io"
	"os"
	"os/exec"
	"path/filepath"
	"strings"
	"sync"
	"sync/atomic"
	"time"
)

type SolveResult struct {
	Status  string // unsat | sat | unknown | timeout | error
	Solver  string
	Seconds float64
	Model   string
	Raw     string
}

// The second stage is a portfolio: quantifier instantiation is sensitive to the random seed (the same
// query can take 0.3 s with one seed and minutes with another), so z3 runs under several seeds next to
// the older z3 and cvc5. Any `unsat` discharges the obligation.
var solverBins = []struct{ name, bin string }{
	{"z3-new", "z3-new"},
	{"z3-new/seed1", "z3-new"},
	{"z3-new/seed2", "z3-new"},
	{"z3-new/seed3", "z3-new"},
	{"z3", "z3"},
	{"cvc5", "cvc5"},
}

// cpuSeconds reads the CPU time (user+system) a process has consumed so far from /proc.
func cpuSeconds(pid int) (float64, bool) {
	b, err := os.ReadFile(fmt.Sprintf("/proc/%d/stat", pid))
	if err != nil {
		return 0, false
	}
	s := string(b)
	i := strings.LastIndexByte(s, ')')
	if i < 0 {
		return 0, false
	}
	f := strings.Fields(s[i+1:])
	if len(f) < 13 {
		return 0, false
	}
	var ut, st float64
	fmt.Sscan(f[11], &ut)
	fmt.Sscan(f[12], &st)
	return (ut + st) / 100.0, true
}

// runSolver runs one solver on one query file. The budget is CPU time of the solver process, not
// wall-clock time: a verdict must not depend on how busy the machine is (a loaded machine makes
// the run slower, not the obligation "undecided"). A generous wall-clock backstop (10x + 20 s)
// only guards against a solver that sleeps.
func runSolver(ctx context.Context, name, bin, file string, timeout time.Duration, wantModel bool) SolveResult {
	start := time.Now()
	backstop := 10*timeout + 20*time.Second
	var args []string
	switch name {
	case "cvc5":
		args = []string{"--lang=smt2", file}
		if wantModel {
			args = append([]string{"--produce-models"}, args...)
		}
	default:
		args = []string{"-smt2", file}
		if i := strings.Index(name, "/seed"); i >= 0 {
			args = []string{"-smt2", "smt.random_seed=" + name[i+5:], "sat.random_seed=" + name[i+5:], file}
		}
	}
	cctx, cancel := context.WithTimeout(ctx, backstop)
	defer cancel()
	cmd := exec.CommandContext(cctx, bin, args...)
	var out bytes.Buffer
	cmd.Stdout = &out
	cmd.Stderr = &out
	cpuOut := false
	cpu := 0.0
	if err := cmd.Start(); err == nil {
		done := make(chan struct{})
		go func() {
			tick := time.NewTicker(20 * time.Millisecond)
			defer tick.Stop()
			for {
				select {
				case <-done:
					return
				case <-tick.C:
					if c, ok := cpuSeconds(cmd.Process.Pid); ok {
						cpu = c
						if c > timeout.Seconds() {
							cpuOut = true
							_ = cmd.Process.Kill()
							return
						}
					}
				}
			}
		}()
		_ = cmd.Wait()
		close(done)
		if cmd.ProcessState != nil {
			cpu = (cmd.ProcessState.UserTime() + cmd.ProcessState.SystemTime()).Seconds()
		}
	}
	s := out.String()
	first := strings.TrimSpace(strings.SplitN(s, "\n", 2)[0])
	_ = start
	res := SolveResult{Solver: name, Seconds: cpu, Raw: s}
	switch {
	case strings.Contains(s, "(error ") && !strings.Contains(s, "model is not available"):
		res.Status = "error"
	case first == "unsat":
		res.Status = "unsat"
	case first == "sat":
		res.Status = "sat"
		if i := strings.Index(s, "\n"); i >= 0 {
			res.Model = s[i+1:]
		}
	case first == "unknown":
		res.Status = "unknown"
	case cpuOut || strings.Contains(first, "timeout") || cctx.Err() != nil:
		res.Status = "timeout"
	default:
		res.Status = "error"
	}
	return res
}

// solve races the solvers on one query text. The query must not contain (check-sat).
func solve(workdir, id, query string, timeout time.Duration, wantModel bool) SolveResult {
	base := filepath.Join(workdir, sanitizeFile(id))
	z3file := base + ".smt2"
	cvcfile := base + ".cvc5.smt2"
	tail := "(check-sat)\n"
	if wantModel {
		tail += "(get-model)\n"
	}
	zq := query + tail
	_ = os.WriteFile(z3file, []byte(zq), 0o644)
	cq := "(set-logic ALL)\n" + query + tail
	if wantModel {
		cq = "(set-option :produce-models true)\n" + cq
	}
	_ = os.WriteFile(cvcfile, []byte(cq), 0o644)

	// stage 1: z3-new alone with a short budget; stage 2: all three in parallel.
	ctx, cancel := context.WithCancel(context.Background())
	defer cancel()
	short := timeout
	if short > 3*time.Second {
		short = 3 * time.Second
	}
	r := poolSolve(query, short, wantModel)
	if r.Status == "unsat" || r.Status == "sat" {
		return r
	}
	if r.Status == "error" {
		// a confused worker must not decide anything: fall back to a process of its own
		r = runSolver(ctx, "z3-new", "z3-new", z3file, short, wantModel)
		if r.Status == "unsat" || r.Status == "sat" {
			return r
		}
	}
	first := r
	ch := make(chan SolveResult, 8)
	var wg sync.WaitGroup
	for _, s := range solverBins {
		wg.Add(1)
		go func(name, bin string) {
			defer wg.Done()
			f := z3file
			if name == "cvc5" {
				f = cvcfile
			}
			if name == "z3-new" && first.Status == "timeout" && first.Seconds >= timeout.Seconds() {
				// the default seed has already had the full budget in stage 1
				ch <- first
				return
			}
			ch <- runSolver(ctx, name, bin, f, timeout, wantModel)
		}(s.name, s.bin)
	}
	go func() { wg.Wait(); close(ch) }()
	var last SolveResult = first
	total := first.Seconds
	for res := range ch {
		if res.Status == "unsat" || res.Status == "sat" {
			cancel()
			res.Seconds += total
			return res
		}
		if res.Status != "error" || last.Status == "" {
			last = res
		}
	}
	last.Seconds += total
	if last.Status == "error" && first.Status != "error" {
		return first
	}
	return last
}

func sanitizeFile(s string) string {
	var b strings.Builder
	for _, c := range s {
		if (c >= 'a' && c <= 'z') || (c >= 'A' && c <= 'Z') || (c >= '0' && c <= '9') || c == '.' || c == '-' || c == '_' {
			b.WriteRune(c)
		} else {
			b.WriteRune('_')
		}
	}
	r := b.String()
	if len(r) > 150 {
		r = r[:150]
	}
	return r
}

// ---- persistent solver workers -------------------------------------------------------------------
// Starting a solver process costs far more than deciding a typical obligation (and many starts in
// parallel contend in the kernel), so first attempts go to long-lived `z3 -in` processes: every
// query is preceded by (reset), which returns the solver to its initial state, and followed by an
// (echo) sentinel. A worker that exceeds its CPU budget is killed and replaced; a worker is also
// retired after a fixed number of queries.

type z3Worker struct {
	cmd   *exec.Cmd
	stdin io.WriteCloser
	out   *bufio.Reader
	n     int
}

var (
	workerPool   = make(chan *z3Worker, 64)
	workerSerial int64
)

func newZ3Worker() *z3Worker {
	cmd := exec.Command("z3-new", "-in", "-smt2")
	in, err := cmd.StdinPipe()
	if err != nil {
		return nil
	}
	outp, err := cmd.StdoutPipe()
	if err != nil {
		return nil
	}
	cmd.Stderr = cmd.Stdout
	if err := cmd.Start(); err != nil {
		return nil
	}
	return &z3Worker{cmd: cmd, stdin: in, out: bufio.NewReaderSize(outp, 1<<16)}
}

func (w *z3Worker) kill() {
	if w == nil || w.cmd == nil || w.cmd.Process == nil {
		return
	}
	_ = w.stdin.Close()
	_ = w.cmd.Process.Kill()
	go w.cmd.Wait()
}

func getWorker() *z3Worker {
	select {
	case w := <-workerPool:
		return w
	default:
		return newZ3Worker()
	}
}

func putWorker(w *z3Worker) {
	if w == nil {
		return
	}
	if w.n > 400 {
		w.kill()
		return
	}
	select {
	case workerPool <- w:
	default:
		w.kill()
	}
}

// shutdownWorkers ends the idle workers (called when a command is done).
func shutdownWorkers() {
	for {
		select {
		case w := <-workerPool:
			w.kill()
		default:
			return
		}
	}
}

// poolSolve decides one query on a persistent z3 worker within a CPU budget.
func poolSolve(query string, budget time.Duration, wantModel bool) SolveResult {
	w := getWorker()
	if w == nil {
		return SolveResult{Status: "error", Solver: "z3-new", Raw: "cannot start z3 worker"}
	}
	w.n++
	serial := atomic.AddInt64(&workerSerial, 1)
	sentinel := fmt.Sprintf("@@END-%d@@", serial)
	cpu0, _ := cpuSeconds(w.cmd.Process.Pid)
	var b strings.Builder
	b.WriteString("(reset)\n")
	b.WriteString(query)
	b.WriteString("(check-sat)\n")
	if wantModel {
		b.WriteString("(get-model)\n")
	}
	b.WriteString("(echo \"" + sentinel + "\")\n")
	type rd struct {
		text string
		err  error
	}
	done := make(chan rd, 1)
	go func() {
		var sb strings.Builder
		for {
			line, err := w.out.ReadString('\n')
			if strings.Contains(line, sentinel) {
				done <- rd{sb.String(), nil}
				return
			}
			sb.WriteString(line)
			if err != nil {
				done <- rd{sb.String(), err}
				return
			}
		}
	}()
	go func() { _, _ = io.WriteString(w.stdin, b.String()) }()
	tick := time.NewTicker(20 * time.Millisecond)
	defer tick.Stop()
	start := time.Now()
	backstop := 10*budget + 20*time.Second
	cpu := 0.0
	for {
		select {
		case r := <-done:
			if c, ok := cpuSeconds(w.cmd.Process.Pid); ok {
				cpu = c - cpu0
			}
			s := r.text
			first := strings.TrimSpace(strings.SplitN(s, "\n", 2)[0])
			res := SolveResult{Solver: "z3-new", Seconds: cpu, Raw: s}
			switch {
			case r.err != nil:
				res.Status = "error"
				w.kill()
				return res
			case first == "unsat":
				res.Status = "unsat"
			case first == "sat":
				res.Status = "sat"
				if i := strings.Index(s, "\n"); i >= 0 {
					res.Model = s[i+1:]
				}
			case first == "unknown":
				res.Status = "unknown"
			case strings.Contains(s, "(error "):
				res.Status = "error"
			default:
				res.Status = "error"
			}
			putWorker(w)
			return res
		case <-tick.C:
			c, ok := cpuSeconds(w.cmd.Process.Pid)
			if ok {
				cpu = c - cpu0
			}
			if (ok && cpu > budget.Seconds()) || time.Since(start) > backstop {
				w.kill()
				return SolveResult{Status: "timeout", Solver: "z3-new", Seconds: cpu}
			}
		}
	}
}
