package main

import (
	"bytes"
	"context"
	"fmt"
	"os"
	"os/exec"
	"path/filepath"
	"strings"
	"sync"
	"time"
)

type SolveResult struct {
	Status  string // unsat | sat | unknown | timeout | error
	Solver  string
	Seconds float64
	Model   string
	Raw     string
}

var solverBins = []struct{ name, bin string }{
	{"z3-new", "z3-new"},
	{"z3", "z3"},
	{"cvc5", "cvc5"},
}

// cpuSeconds reads the CPU time (user+system) a process has consumed so far from /proc.
func cpuSeconds(pid int) (float64, bool) {
	b, err := os.ReadFile(fmt.Sprintf("/proc/%d/stat", pid))
	if err != nil {
		return 0, false
	}
	s := string(b)
	i := strings.LastIndexByte(s, ')')
	if i < 0 {
		return 0, false
	}
	f := strings.Fields(s[i+1:])
	if len(f) < 13 {
		return 0, false
	}
	var ut, st float64
	fmt.Sscan(f[11], &ut)
	fmt.Sscan(f[12], &st)
	return (ut + st) / 100.0, true
}

// runSolver runs one solver on one query file. The budget is CPU time of the solver process, not
// wall-clock time: a verdict must not depend on how busy the machine is (a loaded machine makes
// the run slower, not the obligation "undecided"). A generous wall-clock backstop (10x + 20 s)
// only guards against a solver that sleeps.
func runSolver(ctx context.Context, name, bin, file string, timeout time.Duration, wantModel bool) SolveResult {
	start := time.Now()
	backstop := 10*timeout + 20*time.Second
	var args []string
	switch name {
	case "cvc5":
		args = []string{"--lang=smt2", file}
		if wantModel {
			args = append([]string{"--produce-models"}, args...)
		}
	default:
		args = []string{"-smt2", file}
	}
	cctx, cancel := context.WithTimeout(ctx, backstop)
	defer cancel()
	cmd := exec.CommandContext(cctx, bin, args...)
	var out bytes.Buffer
	cmd.Stdout = &out
	cmd.Stderr = &out
	cpuOut := false
	cpu := 0.0
	if err := cmd.Start(); err == nil {
		done := make(chan struct{})
		go func() {
			tick := time.NewTicker(20 * time.Millisecond)
			defer tick.Stop()
			for {
				select {
				case <-done:
					return
				case <-tick.C:
					if c, ok := cpuSeconds(cmd.Process.Pid); ok {
						cpu = c
						if c > timeout.Seconds() {
							cpuOut = true
							_ = cmd.Process.Kill()
							return
						}
					}
				}
			}
		}()
		_ = cmd.Wait()
		close(done)
		if cmd.ProcessState != nil {
			cpu = (cmd.ProcessState.UserTime() + cmd.ProcessState.SystemTime()).Seconds()
		}
	}
	s := out.String()
	first := strings.TrimSpace(strings.SplitN(s, "\n", 2)[0])
	_ = start
	res := SolveResult{Solver: name, Seconds: cpu, Raw: s}
	switch {
	case strings.Contains(s, "(error ") && !strings.Contains(s, "model is not available"):
		res.Status = "error"
	case first == "unsat":
		res.Status = "unsat"
	case first == "sat":
		res.Status = "sat"
		if i := strings.Index(s, "\n"); i >= 0 {
			res.Model = s[i+1:]
		}
	case first == "unknown":
		res.Status = "unknown"
	case cpuOut || strings.Contains(first, "timeout") || cctx.Err() != nil:
		res.Status = "timeout"
	default:
		res.Status = "error"
	}
	return res
}

// solve races the solvers on one query text. The query must not contain (check-sat).
func solve(workdir, id, query string, timeout time.Duration, wantModel bool) SolveResult {
	base := filepath.Join(workdir, sanitizeFile(id))
	z3file := base + ".smt2"
	cvcfile := base + ".cvc5.smt2"
	tail := "(check-sat)\n"
	if wantModel {
		tail += "(get-model)\n"
	}
	zq := query + tail
	_ = os.WriteFile(z3file, []byte(zq), 0o644)
	cq := "(set-logic ALL)\n" + query + tail
	if wantModel {
		cq = "(set-option :produce-models true)\n" + cq
	}
	_ = os.WriteFile(cvcfile, []byte(cq), 0o644)

	// stage 1: z3-new alone with a short budget; stage 2: all three in parallel.
	ctx, cancel := context.WithCancel(context.Background())
	defer cancel()
	short := timeout
	if short > 3*time.Second {
		short = 3 * time.Second
	}
	r := runSolver(ctx, "z3-new", "z3-new", z3file, short, wantModel)
	if r.Status == "unsat" || r.Status == "sat" {
		return r
	}
	first := r
	ch := make(chan SolveResult, 3)
	var wg sync.WaitGroup
	for _, s := range solverBins {
		wg.Add(1)
		go func(name, bin string) {
			defer wg.Done()
			f := z3file
			if name == "cvc5" {
				f = cvcfile
			}
			ch <- runSolver(ctx, name, bin, f, timeout, wantModel)
		}(s.name, s.bin)
	}
	go func() { wg.Wait(); close(ch) }()
	var last SolveResult = first
	total := first.Seconds
	for res := range ch {
		if res.Status == "unsat" || res.Status == "sat" {
			cancel()
			res.Seconds += total
			return res
		}
		if res.Status != "error" || last.Status == "" {
			last = res
		}
	}
	last.Seconds += total
	if last.Status == "error" && first.Status != "error" {
		return first
	}
	return last
}

func sanitizeFile(s string) string {
	var b strings.Builder
	for _, c := range s {
		if (c >= 'a' && c <= 'z') || (c >= 'A' && c <= 'Z') || (c >= '0' && c <= '9') || c == '.' || c == '-' || c == '_' {
			b.WriteRune(c)
		} else {
			b.WriteRune('_')
		}
	}
	r := b.String()
	if len(r) > 150 {
		r = r[:150]
	}
	return r
}
