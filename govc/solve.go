package main

import (
	"bytes"
	"context"
	"fmt"
	"os"
	"os/exec"
	"path/filepath"
	"strings"
	"sync"
	"time"
)

type SolveResult struct {
	Status  string // unsat | sat | unknown | timeout | error
	Solver  string
	Seconds float64
	Model   string
	Raw     string
}

var solverBins = []struct{ name, bin string }{
	{"z3-new", "z3-new"},
	{"z3", "z3"},
	{"cvc5", "cvc5"},
}

func runSolver(ctx context.Context, name, bin, file string, timeout time.Duration, wantModel bool) SolveResult {
	start := time.Now()
	var args []string
	switch name {
	case "cvc5":
		args = []string{"--tlimit=" + fmt.Sprint(int(timeout.Milliseconds())), "--lang=smt2", file}
		if wantModel {
			args = append([]string{"--produce-models"}, args...)
		}
	default:
		args = []string{"-T:" + fmt.Sprint(int(timeout.Seconds())+1), "-smt2", file}
	}
	cctx, cancel := context.WithTimeout(ctx, timeout+2*time.Second)
	defer cancel()
	cmd := exec.CommandContext(cctx, bin, args...)
	var out bytes.Buffer
	cmd.Stdout = &out
	cmd.Stderr = &out
	_ = cmd.Run()
	s := out.String()
	first := strings.TrimSpace(strings.SplitN(s, "\n", 2)[0])
	res := SolveResult{Solver: name, Seconds: time.Since(start).Seconds(), Raw: s}
	switch {
	case strings.Contains(s, "(error ") && !strings.Contains(s, "model is not available"):
		res.Status = "error"
	case first == "unsat":
		res.Status = "unsat"
	case first == "sat":
		res.Status = "sat"
		if i := strings.Index(s, "\n"); i >= 0 {
			res.Model = s[i+1:]
		}
	case first == "unknown":
		res.Status = "unknown"
	case strings.Contains(first, "timeout") || cctx.Err() != nil:
		res.Status = "timeout"
	default:
		res.Status = "error"
	}
	return res
}

// solve races the solvers on one query text. The query must not contain (check-sat).
func solve(workdir, id, query string, timeout time.Duration, wantModel bool) SolveResult {
	base := filepath.Join(workdir, sanitizeFile(id))
	z3file := base + ".smt2"
	cvcfile := base + ".cvc5.smt2"
	tail := "(check-sat)\n"
	if wantModel {
		tail += "(get-model)\n"
	}
	zq := query + tail
	_ = os.WriteFile(z3file, []byte(zq), 0o644)
	cq := "(set-logic ALL)\n" + query + tail
	if wantModel {
		cq = "(set-option :produce-models true)\n" + cq
	}
	_ = os.WriteFile(cvcfile, []byte(cq), 0o644)

	// stage 1: z3-new alone with a short budget; stage 2: all three in parallel.
	ctx, cancel := context.WithCancel(context.Background())
	defer cancel()
	short := timeout
	if short > 3*time.Second {
		short = 3 * time.Second
	}
	r := runSolver(ctx, "z3-new", "z3-new", z3file, short, wantModel)
	if r.Status == "unsat" || r.Status == "sat" {
		return r
	}
	first := r
	ch := make(chan SolveResult, 3)
	var wg sync.WaitGroup
	for _, s := range solverBins {
		wg.Add(1)
		go func(name, bin string) {
			defer wg.Done()
			f := z3file
			if name == "cvc5" {
				f = cvcfile
			}
			ch <- runSolver(ctx, name, bin, f, timeout, wantModel)
		}(s.name, s.bin)
	}
	go func() { wg.Wait(); close(ch) }()
	var last SolveResult = first
	total := first.Seconds
	for res := range ch {
		if res.Status == "unsat" || res.Status == "sat" {
			cancel()
			res.Seconds += total
			return res
		}
		if res.Status != "error" || last.Status == "" {
			last = res
		}
	}
	last.Seconds += total
	if last.Status == "error" && first.Status != "error" {
		return first
	}
	return last
}

func sanitizeFile(s string) string {
	var b strings.Builder
	for _, c := range s {
		if (c >= 'a' && c <= 'z') || (c >= 'A' && c <= 'Z') || (c >= '0' && c <= '9') || c == '.' || c == '-' || c == '_' {
			b.WriteRune(c)
		} else {
			b.WriteRune('_')
		}
	}
	r := b.String()
	if len(r) > 150 {
		r = r[:150]
	}
	return r
}
