package main

import (
	"go/constant"
	"go/token"
	"go/types"
	"sort"
	"strings"

	"golang.org/x/tools/go/ssa"
)

type funcModel struct {
	wc func(ft *FT, c *ssa.CallCommon) []string
	w  func(ft *FT) []string
	f  func(ft *FT, st *State, guard Term, c *ssa.CallCommon, args []Term, pos token.Pos) []Term
}

func (m *funcModel) writesCall(ft *FT, c *ssa.CallCommon) []string {
	if m.wc != nil {
		return m.wc(ft, c)
	}
	return m.writes(ft)
}

func (m *funcModel) writes(ft *FT) []string {
	if m.w == nil {
		return nil
	}
	return m.w(ft)
}
func (m *funcModel) apply(ft *FT, st *State, guard Term, c *ssa.CallCommon, args []Term, pos token.Pos) []Term {
	return m.f(ft, st, guard, c, args, pos)
}

func heldKey(ft *FT) string {
	ft.keySort("HELD", arraySort("Int", "Int"))
	return "HELD"
}

// monitorFor finds the monitor declared for the mutex designated by lock value v (a FieldAddr of T.mu).
func (ft *FT) monitorFor(v ssa.Value) (*Monitor, ssa.Value) {
	fa, ok := v.(*ssa.FieldAddr)
	if !ok {
		return nil, nil
	}
	bt := deref(fa.X.Type())
	n, ok := bt.(*types.Named)
	if !ok {
		return nil, nil
	}
	stt := bt.Underlying().(*types.Struct)
	fname := stt.Field(fa.Field).Name()
	for _, m := range ft.eng.cons.Monitors {
		if m.Type == n.Obj().Name() && m.Field == fname && n.Obj().Pkg() != nil && pkgKey(n.Obj().Pkg()) == m.PkgName {
			return m, fa.X
		}
	}
	return nil, nil
}

func (ft *FT) monitorCtx(m *Monitor, base ssa.Value, st *State) *SpecCtx {
	ctx := ft.specCtx(st, ft.entry)
	bt := base.Type()
	sv := SpecVal{T: ft.val(base), Typ: bt, Sort: ft.d.sortOf(bt)}
	ctx = ctx.with(map[string]SpecVal{"self": sv})
	ctx.pkg = ft.eng.pkgByName[m.PkgName]
	ctx.local = nil
	return ctx
}

// lockAcquire: havoc the guarded state of the object and assume the monitor invariant.
func (ft *FT) lockAcquire(st *State, guard Term, lockVal ssa.Value, pos token.Pos) {
	// acquiring a lock is an interference point: another goroutine may have closed any channel that existed when this
	// function was entered (closing is monotone: a closed channel stays closed); channels this function made itself are
	// taken not to be shared yet, like every other object it allocates
	if hi := ft.heaps["CLOSED"]; hi != nil {
		old := ft.get(st, "CLOSED")
		nv := ft.freshVersion(st, "CLOSED")
		entryNext := ft.get(ft.entry, "$next")
		ft.assume("true", forall([][2]string{{"c", "Int"}}, "(! "+and(implies(app("select", old, "c"), app("select", nv, "c")), implies(app(">=", "c", entryNext), eq(app("select", nv, "c"), app("select", old, "c"))))+" :pattern ((select "+nv+" c)))"))
	}
	m, base := ft.monitorFor(lockVal)
	if m == nil {
		return
	}
	b := ft.val(base)
	bt := deref(base.Type())
	stt := bt.Underlying().(*types.Struct)
	for _, g := range m.Guards {
		for i := 0; i < stt.NumFields(); i++ {
			f := stt.Field(i)
			if f.Name() != g {
				continue
			}
			k := fieldKey(bt, f)
			ft.keySort(k, arraySort("Int", ft.d.sortOf(f.Type())))
			nv := ft.fresh("mon!"+g, ft.d.sortOf(f.Type()))
			ft.assume("true", ft.typeInv(nv, f.Type(), st))
			ft.set(st, k, app("store", ft.get(st, k), b, nv))
			switch t := f.Type().Underlying().(type) {
			case *types.Map:
				for _, mk := range ft.mapKeys(t) {
					hv := ft.fresh("mon!"+g+"!c", strings.TrimSuffix(strings.TrimPrefix(ft.heaps[mk].sort, "(Array Int "), ")"))
					ft.set(st, mk, app("store", ft.get(st, mk), nv, hv))
				}
				ft.assume("true", app("<=", "0", sel(ft.get(st, ft.mapKeys(t)[2]), nv)))
			case *types.Slice:
				ek := ft.elemKey(t.Elem())
				hv := ft.fresh("mon!"+g+"!e", strings.TrimSuffix(strings.TrimPrefix(ft.heaps[ek].sort, "(Array Int "), ")"))
				ft.set(st, ek, app("store", ft.get(st, ek), app("sl-base", nv), hv))
			}
		}
	}
	// channels whose closed status the lock protects: other goroutines may have closed them since the last critical section
	for _, g := range m.Closes {
		for i := 0; i < stt.NumFields(); i++ {
			f := stt.Field(i)
			if f.Name() != g {
				continue
			}
			k := fieldKey(bt, f)
			ft.keySort(k, arraySort("Int", ft.d.sortOf(f.Type())))
			ft.keySort("CLOSED", arraySort("Int", "Bool"))
			ch := sel(ft.get(st, k), b)
			nv := ft.fresh("mon!closed!"+g, "Bool")
			ft.set(st, "CLOSED", app("store", ft.get(st, "CLOSED"), ch, nv))
		}
	}
	if m.Inv != nil {
		ctx := ft.monitorCtx(m, base, st)
		t, err := ctx.boolExpr(m.Inv.Expr)
		if err != nil {
			ft.errf("monitor %s.%s invariant: %v", m.Type, m.Field, err)
			return
		}
		ft.assume(guard, t)
	}
}

func (ft *FT) lockRelease(st *State, guard Term, lockVal ssa.Value, pos token.Pos, write bool) {
	m, base := ft.monitorFor(lockVal)
	if m == nil || m.Inv == nil || !write {
		return
	}
	if ft.con != nil && ft.con.NoMonitor {
		ft.note("monitor invariant not re-checked in a nomonitor (configuration-time) function")
		return
	}
	ctx := ft.monitorCtx(m, base, st)
	t, err := ctx.boolExpr(m.Inv.Expr)
	if err != nil {
		ft.errf("monitor %s.%s invariant: %v", m.Type, m.Field, err)
		return
	}
	ft.oblige("monitor-inv@unlock", pos, "", guard, t, true)
}

func lockArg(c *ssa.CallCommon) ssa.Value {
	if len(c.Args) > 0 {
		return c.Args[0]
	}
	return nil
}

func registerModels(e *Engine) {
	lock := func(mode string) *funcModel {
		return &funcModel{
			w: func(ft *FT) []string { return []string{heldKey(ft)} },
			f: func(ft *FT, st *State, guard Term, c *ssa.CallCommon, args []Term, pos token.Pos) []Term {
				hk := heldKey(ft)
				h := ft.get(st, hk)
				l := args[0]
				lockDiscipline := ft.con != nil && ft.con.Strict
				switch mode {
				case "lock":
					ft.oblige("lock-reentry", pos, "", guard, eq(app("select", h, l), "0"), ft.lockDiscipline() && paramLockDirect(lockArg(c)))
					ft.set(st, hk, app("store", h, l, "2"))
					if v := lockArg(c); v != nil {
						ft.lockAcquire(st, guard, v, pos)
					}
					// atlock() refers to the state right after the most recent lock acquisition
					ft.afterLock = st.clone()
				case "rlock":
					ft.oblige("lock-reentry", pos, "", guard, eq(app("select", h, l), "0"), ft.lockDiscipline() && paramLockDirect(lockArg(c)))
					ft.set(st, hk, app("store", h, l, "1"))
					if v := lockArg(c); v != nil {
						ft.lockAcquire(st, guard, v, pos)
					}
					// atlock() refers to the state right after the most recent lock acquisition
					ft.afterLock = st.clone()
				case "unlock":
					ft.oblige("unlock-held", pos, "", guard, eq(app("select", h, l), "2"), lockDiscipline)
					if v := lockArg(c); v != nil {
						ft.lockRelease(st, guard, v, pos, true)
					}
					if ft.con != nil && len(ft.con.AtUnlock) > 0 {
						ctx := ft.specCtx(st, ft.entry)
						if ft.curBlk != nil {
							ctx.local = ft.localResolver(ft.curBlk, false, nil, nil, ctx.local)
						}
						for _, cl := range ft.con.AtUnlock {
							t, err := ctx.boolExpr(cl.Expr)
							if err != nil {
								ft.errf("atunlock %q: %v", cl.Text, err)
								continue
							}
							ft.oblige("at-unlock", pos, cl.Text+" @ "+ft.srcText(pos), guard, t, true)
						}
					}
					ft.set(st, hk, app("store", ft.get(st, hk), l, "0"))
				case "runlock":
					ft.oblige("unlock-held", pos, "", guard, eq(app("select", h, l), "1"), lockDiscipline)
					if v := lockArg(c); v != nil {
						ft.lockRelease(st, guard, v, pos, false)
					}
					ft.set(st, hk, app("store", ft.get(st, hk), l, "0"))
				}
				return nil
			},
		}
	}
	e.models["(*sync.Mutex).Lock"] = lock("lock")
	e.models["(*sync.Mutex).Unlock"] = lock("unlock")
	e.models["(*sync.RWMutex).Lock"] = lock("lock")
	e.models["(*sync.RWMutex).Unlock"] = lock("unlock")
	e.models["(*sync.RWMutex).RLock"] = lock("rlock")
	e.models["(*sync.RWMutex).RUnlock"] = lock("runlock")

	noop := &funcModel{f: func(ft *FT, st *State, guard Term, c *ssa.CallCommon, args []Term, pos token.Pos) []Term {
		sig := c.Signature()
		var rs []Term
		for i := 0; i < sig.Results().Len(); i++ {
			rt := sig.Results().At(i).Type()
			r := ft.fresh("noop", ft.d.sortOf(rt))
			ft.assume("true", ft.typeInv(r, rt, st))
			rs = append(rs, r)
		}
		return rs
	}}
	for _, n := range []string{"(*sync.WaitGroup).Add", "(*sync.WaitGroup).Done", "(*sync.WaitGroup).Wait", "(*time.Ticker).Stop", "(*time.Timer).Stop", "time.NewTicker", "time.NewTimer", "time.After", "time.Sleep"} {
		e.models[n] = noop
	}
	// fmt.Sprintf with a constant format: the result satisfies the literal predicate P of the contract (`literals P`)
	// when the format is a literal and every %s / %v / %q operand is a string satisfying P (integers under %d are digits).
	e.models["fmt.Sprintf"] = &funcModel{f: func(ft *FT, st *State, guard Term, c *ssa.CallCommon, args []Term, pos token.Pos) []Term {
		r := ft.fresh("sprintf", "Str")
		if ft.con == nil || ft.con.LitPred == "" || len(c.Args) < 2 {
			return []Term{r}
		}
		fc, ok := c.Args[0].(*ssa.Const)
		if !ok || fc.Value == nil {
			return []Term{r}
		}
		ops, ok := variadicOperands(c.Args[1])
		if !ok {
			return []Term{r}
		}
		sf := ft.eng.cons.Specs[ft.con.LitPred]
		if sf == nil {
			return []Term{r}
		}
		pred := q("spec!" + sf.PkgName + "." + sf.Name)
		ft.d.fun("spec!"+sf.PkgName+"."+sf.Name, []Sort{"Str"}, "Bool")
		format := constant.StringVal(fc.Value)
		var conds []Term
		k := 0
		okAll := true
		for i := 0; i < len(format); i++ {
			if format[i] != '%' {
				continue
			}
			i++
			if i >= len(format) {
				okAll = false
				break
			}
			if format[i] == '%' {
				continue
			}
			for i < len(format) && strings.ContainsRune("+-# 0123456789.", rune(format[i])) {
				i++
			}
			if i >= len(format) || k >= len(ops) {
				okAll = false
				break
			}
			verb := format[i]
			op := ops[k]
			k++
			switch {
			case verb == 'd' && isInt(op.Type()):
				// digits (and a sign)
			case (verb == 's' || verb == 'v') && isString(op.Type()):
				conds = append(conds, app(pred, ft.val(op)))
			default:
				okAll = false
			}
		}
		if okAll && k == len(ops) {
			ft.litFact(ft.d.strLit(format))
			ft.assume(guard, implies(and(conds...), app(pred, r)))
			ft.note("fmt.Sprintf with a literal format preserves the literal predicate of its string operands (digits for %d)")
		}
		return []Term{r}
	}}
	// fmt.Fprintf into a *strings.Builder with a literal format: like Sprintf, accumulated in the ghost bsafe(builder)
	e.models["fmt.Fprintf"] = &funcModel{
		wc: func(ft *FT, c *ssa.CallCommon) []string {
			if sf := ft.eng.cons.Specs["bsafe"]; sf != nil && sf.Ghost {
				ft.keySort("G!bsafe", arraySort("Int", "Bool"))
				return []string{"G!bsafe"}
			}
			return nil
		},
		f: func(ft *FT, st *State, guard Term, c *ssa.CallCommon, args []Term, pos token.Pos) []Term {
			sig := c.Signature()
			var rs []Term
			for i := 0; i < sig.Results().Len(); i++ {
				rt := sig.Results().At(i).Type()
				r := ft.fresh("fprintf", ft.d.sortOf(rt))
				rs = append(rs, r)
			}
			sf := ft.eng.cons.Specs["bsafe"]
			if sf == nil || !sf.Ghost || len(c.Args) < 3 {
				return rs
			}
			ft.keySort("G!bsafe", arraySort("Int", "Bool"))
			// the writer operand: MakeInterface(*strings.Builder)
			mi, ok := c.Args[0].(*ssa.MakeInterface)
			if !ok || types.TypeString(mi.X.Type(), nil) != "*strings.Builder" {
				return rs
			}
			b := ft.val(mi.X)
			cur := ft.get(st, "G!bsafe")
			okv := ft.fresh("fpsafe", "Bool")
			ft.set(st, "G!bsafe", app("store", cur, b, and(app("select", cur, b), okv)))
			fc, isC := c.Args[1].(*ssa.Const)
			ops, okOps := variadicOperands(c.Args[2])
			pf := ft.eng.cons.Specs["safe"]
			if !isC || fc.Value == nil || !okOps || pf == nil || ft.con == nil || ft.con.LitPred != "safe" {
				ft.assume(guard, not(okv))
				return rs
			}
			pred := q("spec!" + pf.PkgName + "." + pf.Name)
			ft.d.fun("spec!"+pf.PkgName+"."+pf.Name, []Sort{"Str"}, "Bool")
			format := constant.StringVal(fc.Value)
			var conds []Term
			k := 0
			okAll := true
			for i := 0; i < len(format); i++ {
				if format[i] != '%' {
					continue
				}
				i++
				if i >= len(format) {
					okAll = false
					break
				}
				if format[i] == '%' {
					continue
				}
				if k >= len(ops) {
					okAll = false
					break
				}
				op := ops[k]
				k++
				switch {
				case format[i] == 'd' && isInt(op.Type()):
				case (format[i] == 's' || format[i] == 'v') && isString(op.Type()):
					conds = append(conds, app(pred, ft.val(op)))
				default:
					okAll = false
				}
			}
			if okAll && k == len(ops) {
				ft.assume(guard, eq(okv, and(conds...)))
			} else {
				ft.assume(guard, not(okv))
			}
			return rs
		},
	}
	// time: ghost monotone clock in nanoseconds
	e.models["time.Now"] = &funcModel{
		w: func(ft *FT) []string { ft.keySort("$clock", "Int"); return []string{"$clock"} },
		f: func(ft *FT, st *State, guard Term, c *ssa.CallCommon, args []Term, pos token.Pos) []Term {
			ft.keySort("$clock", "Int")
			old := ft.get(st, "$clock")
			n := ft.freshVersion(st, "$clock")
			ft.assume("true", app("<=", old, n))
			ft.note("time.Time modelled as monotone integer nanoseconds")
			return []Term{n}
		},
	}
	e.models["(time.Time).Sub"] = &funcModel{f: func(ft *FT, st *State, guard Term, c *ssa.CallCommon, args []Term, pos token.Pos) []Term {
		return []Term{app("-", args[0], args[1])}
	}}
	e.models["(time.Time).After"] = &funcModel{f: func(ft *FT, st *State, guard Term, c *ssa.CallCommon, args []Term, pos token.Pos) []Term {
		return []Term{app(">", args[0], args[1])}
	}}
	e.models["(time.Time).Before"] = &funcModel{f: func(ft *FT, st *State, guard Term, c *ssa.CallCommon, args []Term, pos token.Pos) []Term {
		return []Term{app("<", args[0], args[1])}
	}}
	e.models["(time.Time).Add"] = &funcModel{f: func(ft *FT, st *State, guard Term, c *ssa.CallCommon, args []Term, pos token.Pos) []Term {
		return []Term{app("+", args[0], args[1])}
	}}
	e.models["(time.Time).IsZero"] = &funcModel{f: func(ft *FT, st *State, guard Term, c *ssa.CallCommon, args []Term, pos token.Pos) []Term {
		return []Term{eq(args[0], "0")}
	}}
	// sync/atomic: the addressed cell gets an arbitrary value (other goroutines interfere); nothing else changes
	atomicModel := func(writes bool) *funcModel {
		return &funcModel{
			wc: func(ft *FT, c *ssa.CallCommon) []string {
				if !writes || len(c.Args) == 0 {
					return nil
				}
				return ft.foreignKeysOfAddr(c.Args[0])
			},
			f: func(ft *FT, st *State, guard Term, c *ssa.CallCommon, args []Term, pos token.Pos) []Term {
				sig := c.Signature()
				if writes && len(c.Args) > 0 {
					l := ft.locOf(c.Args[0])
					nv := ft.fresh("atomic", ft.d.sortOf(l.typ))
					ft.assume("true", ft.typeInv(nv, l.typ, st))
					ft.store(st, l, nv)
				}
				var rs []Term
				for i := 0; i < sig.Results().Len(); i++ {
					rt := sig.Results().At(i).Type()
					r := ft.fresh("atomic", ft.d.sortOf(rt))
					ft.assume("true", ft.typeInv(r, rt, st))
					rs = append(rs, r)
				}
				return rs
			},
		}
	}
	for _, n := range []string{"AddInt32", "AddInt64", "AddUint32", "AddUint64", "StoreInt32", "StoreInt64", "StoreUint32", "StoreUint64", "SwapInt32", "SwapInt64", "CompareAndSwapInt32", "CompareAndSwapInt64", "CompareAndSwapUint32", "CompareAndSwapUint64"} {
		e.models["atomic."+n] = atomicModel(true)
	}
	for _, n := range []string{"LoadInt32", "LoadInt64", "LoadUint32", "LoadUint64"} {
		e.models["atomic."+n] = atomicModel(false)
	}
	e.models["time.Since"] = &funcModel{
		w: func(ft *FT) []string { ft.keySort("$clock", "Int"); return []string{"$clock"} },
		f: func(ft *FT, st *State, guard Term, c *ssa.CallCommon, args []Term, pos token.Pos) []Term {
			ft.keySort("$clock", "Int")
			old := ft.get(st, "$clock")
			n := ft.freshVersion(st, "$clock")
			ft.assume("true", app("<=", old, n))
			return []Term{app("-", n, args[0])}
		},
	}
}

// guardedAccess: lock-discipline obligation for loads/stores of monitor-guarded fields.
func (ft *FT) guardedAccess(addr ssa.Value, write bool, pos token.Pos, guard Term) {
	fa, ok := addr.(*ssa.FieldAddr)
	if !ok {
		return
	}
	ft.guardedField(fa, write, pos, guard)
}

func (ft *FT) guardedField(fa *ssa.FieldAddr, write bool, pos token.Pos, guard Term) {
	if len(ft.eng.cons.Monitors) == 0 {
		return
	}
	bt := deref(fa.X.Type())
	n, ok := bt.(*types.Named)
	if !ok {
		return
	}
	stt, ok := bt.Underlying().(*types.Struct)
	if !ok {
		return
	}
	fname := stt.Field(fa.Field).Name()
	for _, m := range ft.eng.cons.Monitors {
		// fields of another struct protected by this monitor's lock (e.g. cache entries guarded by the cache's mutex)
		if n.Obj().Pkg() != nil && pkgKey(n.Obj().Pkg()) == m.PkgName {
			for _, a := range m.Also {
				if a == n.Obj().Name()+"."+fname {
					ft.guardedExternal(m, fa, write, pos, guard)
				}
			}
		}
		if m.Type != n.Obj().Name() || n.Obj().Pkg() == nil || pkgKey(n.Obj().Pkg()) != m.PkgName {
			continue
		}
		guarded := false
		for _, g := range m.Guards {
			if g == fname {
				guarded = true
			}
		}
		if !guarded {
			continue
		}
		if !write && m.Owner != "" && m.Owner == ft.key {
			continue // single-writer pattern: the owning goroutine's own reads cannot race with a write
		}
		// lock address of the same object
		var muField *types.Var
		for i := 0; i < stt.NumFields(); i++ {
			if stt.Field(i).Name() == m.Field {
				muField = stt.Field(i)
			}
		}
		if muField == nil {
			continue
		}
		if _, isLoc := ft.locs[fa.X]; isLoc {
			continue // object local to this function
		}
		base := ft.val(fa.X)
		l := &Loc{key: fieldKey(bt, muField), idx: []Term{base}, typ: muField.Type()}
		ft.keySort(l.key, arraySort("Int", ft.d.sortOf(muField.Type())))
		lockT := ft.materialize(nil, l)
		hk := heldKey(ft)
		h := app("select", ft.get(ft.stateNow, hk), lockT)
		var goal Term
		if write {
			goal = eq(h, "2")
		} else {
			goal = not(eq(h, "0"))
		}
		// objects allocated by this very function are not yet shared
		goal = or(app(">=", base, ft.get(ft.entry, "$next")), goal)
		kind := "guarded-by"
		ft.oblige(kind, pos, "", guard, goal, true)
	}
}

// guardedMap: map operations on a map loaded from a guarded field need the lock at operation time.
func (ft *FT) guardedMap(m ssa.Value, write bool, pos token.Pos, guard Term) {
	u, ok := m.(*ssa.UnOp)
	if !ok || u.Op != token.MUL {
		return
	}
	if fa, ok := u.X.(*ssa.FieldAddr); ok {
		ft.guardedField(fa, write, pos, guard)
	}
}

// guardedExternal: access to a field of another object that is protected by monitor m's lock; the
// lock owner is the parameter (or receiver) of the monitor's struct type.
func (ft *FT) guardedExternal(m *Monitor, fa *ssa.FieldAddr, write bool, pos token.Pos, guard Term) {
	if _, isLoc := ft.locs[fa.X]; isLoc {
		return
	}
	var owner ssa.Value
	var ownerT types.Type
	cands := []ssa.Value{}
	for _, p := range ft.fn.Params {
		cands = append(cands, p)
	}
	for _, c := range cands {
		if n, ok := deref(c.Type()).(*types.Named); ok && n.Obj().Name() == m.Type && n.Obj().Pkg() != nil && pkgKey(n.Obj().Pkg()) == m.PkgName {
			if _, isPtr := c.Type().Underlying().(*types.Pointer); isPtr {
				owner, ownerT = c, deref(c.Type())
			}
		}
	}
	if owner == nil {
		ft.note("access to " + m.Type + "-guarded field outside a method of " + m.Type + " (lock owner unknown, not checked)")
		return
	}
	stt := ownerT.Underlying().(*types.Struct)
	var muField *types.Var
	for i := 0; i < stt.NumFields(); i++ {
		if stt.Field(i).Name() == m.Field {
			muField = stt.Field(i)
		}
	}
	if muField == nil {
		return
	}
	l := &Loc{key: fieldKey(ownerT, muField), idx: []Term{ft.val(owner)}, typ: muField.Type()}
	ft.keySort(l.key, arraySort("Int", ft.d.sortOf(muField.Type())))
	lockT := ft.materialize(nil, l)
	h := app("select", ft.get(ft.stateNow, heldKey(ft)), lockT)
	var goal Term
	if write {
		goal = eq(h, "2")
	} else {
		goal = not(eq(h, "0"))
	}
	goal = or(app(">=", ft.val(fa.X), ft.get(ft.entry, "$next")), goal)
	ft.oblige("guarded-by", pos, "", guard, goal, true)
}

// variadicOperands recovers the operands packaged into the variadic slice of a call (new [n]T; stores; slice).
func variadicOperands(v ssa.Value) ([]ssa.Value, bool) {
	if c, ok := v.(*ssa.Const); ok && c.Value == nil {
		return nil, true // nil slice: no operands
	}
	sl, ok := v.(*ssa.Slice)
	if !ok {
		return nil, false
	}
	al, ok := sl.X.(*ssa.Alloc)
	if !ok || al.Referrers() == nil {
		return nil, false
	}
	at, ok := deref(al.Type()).Underlying().(*types.Array)
	if !ok {
		return nil, false
	}
	ops := make([]ssa.Value, at.Len())
	for _, r := range *al.Referrers() {
		ia, ok := r.(*ssa.IndexAddr)
		if !ok {
			continue
		}
		ic, ok := ia.Index.(*ssa.Const)
		if !ok || ia.Referrers() == nil {
			return nil, false
		}
		idx, _ := constant.Int64Val(ic.Value)
		for _, r2 := range *ia.Referrers() {
			if st, ok := r2.(*ssa.Store); ok {
				val := st.Val
				if mi, ok := val.(*ssa.MakeInterface); ok {
					val = mi.X
				}
				if idx >= 0 && int(idx) < len(ops) {
					ops[idx] = val
				}
			}
		}
	}
	for _, o := range ops {
		if o == nil {
			return nil, false
		}
	}
	return ops, true
}

// directParamLocks: the mutexes a function acquires on a field of one of its own parameters
// (c.mu.Lock(), m.mu.RLock()) - itself or through static calls that pass the parameter along
// (rm.GetRoom(name) locks rm.mu) - as contract expressions `addr(<param>.<field>)`.
func directParamLocks(fn *ssa.Function) []string {
	return paramLocksRec(fn, map[*ssa.Function]bool{})
}

func paramLocksRec(fn *ssa.Function, visiting map[*ssa.Function]bool) []string {
	if fn == nil || fn.Blocks == nil || visiting[fn] || len(visiting) > 12 {
		return nil
	}
	visiting[fn] = true
	defer delete(visiting, fn)
	seen := map[string]bool{}
	var out []string
	add := func(txt string) {
		if !seen[txt] {
			seen[txt] = true
			out = append(out, txt)
		}
	}
	for _, b := range fn.Blocks {
		for _, ins := range b.Instrs {
			ci, ok := ins.(ssa.CallInstruction)
			if !ok {
				continue
			}
			if _, isGo := ins.(*ssa.Go); isGo {
				continue
			}
			f := ci.Common().StaticCallee()
			if f == nil {
				continue
			}
			switch normName(f.String()) {
			case "(*sync.Mutex).Lock", "(*sync.RWMutex).Lock", "(*sync.RWMutex).RLock":
				if len(ci.Common().Args) == 0 {
					continue
				}
				fa, ok := ci.Common().Args[0].(*ssa.FieldAddr)
				if !ok {
					continue
				}
				par, ok := fa.X.(*ssa.Parameter)
				if !ok || par.Name() == "" || par.Name() == "_" {
					continue
				}
				st, ok := deref(par.Type()).Underlying().(*types.Struct)
				if !ok {
					continue
				}
				add("addr(" + par.Name() + "." + st.Field(fa.Field).Name() + ")")
			default:
				if f.Blocks == nil || f.Pkg != fn.Pkg {
					continue
				}
				for _, txt := range paramLocksRec(f, visiting) {
					pn := txt[len("addr("):strings.Index(txt, ".")]
					for k, cp := range f.Params {
						if cp.Name() == pn && k < len(ci.Common().Args) {
							if par, ok := ci.Common().Args[k].(*ssa.Parameter); ok && par.Name() != "" && par.Name() != "_" {
								add("addr(" + par.Name() + txt[strings.Index(txt, "."):])
							}
						}
					}
				}
			}
		}
	}
	sort.Strings(out)
	return out
}

// paramLockDirect: the lock operand is a mutex field of a parameter of the function under verification.
func paramLockDirect(v ssa.Value) bool {
	fa, ok := v.(*ssa.FieldAddr)
	if !ok {
		return false
	}
	_, ok = fa.X.(*ssa.Parameter)
	return ok
}
