package main

import (
	"fmt"
	"go/ast"
	"go/parser"
	"go/token"
	"os"
	"regexp"
	"strconv"
	"strings"
)

type Clause struct {
	Text string
	Expr ast.Expr
	File string
	Line int
	// WhereDefined: a check that applies only at the returns where every local it names is in scope
	// (it must apply at one return at least)
	WhereDefined bool
	// Must: a callpre that has to apply at one call site at least (the call carries the property; if a
	// refactoring moves it out of this function the contract no longer constrains it)
	Must    bool
	sites   int
	Assumed bool   // summary: assumed by callers, not verified in the body
	Loc     string // assertat: substring of the source line
	Nth     int    // assertat: which matching line of the function (1-based; 0 = every one)
	skipped string
}

type LoopContract struct {
	Invariants []*Clause
	Decreases  *Clause
}

type ParamContract struct {
	MayPanic bool
	Requires []*Clause
	Ensures  []*Clause
	Modifies []*Clause
	HasMod   bool
}

type FuncContract struct {
	Key            string
	PkgName        string
	Requires       []*Clause
	Ensures        []*Clause
	EnsuresP       []*Clause            // ensures on panic exits
	CallPre        map[string][]*Clause // obligations on the arguments of calls made by this function, keyed by callee
	DynMod         []*Clause            // assumed frame of dynamic calls in this function
	HasDynMod      bool
	UnknownLikeDyn bool           // calls without a contract are assumed to respect the dyncall frame
	SendPre        []*Clause      // obligations on every channel send of the function (`ch` = the channel)
	LitPred        string         // spec predicate assumed of every string literal of the function body (e.g. safe)
	NoMonitor      bool           // exempt from re-establishing monitor invariants (configuration-time function)
	GhostAt        []*GhostUpdate // ghost assignments placed before the statement on a named source line
	AssertAt       []*Clause      // ghost assertions placed before the statement on a named source line (Loc, Nth)
	AtUnlock       []*Clause      // assertions checked at every Unlock of the function (may mention locals and atlock())
	Checks         []*Clause      // internal postconditions (may mention locals; not exported to callers)
	Functional     bool
	Modifies       []*Clause
	HasMod         bool
	Pure           bool
	Trusted        bool
	Strict         bool
	MathInt        bool
	MayPanic       bool
	HoldsLock      bool // opt-out of the lock discipline: the function is entered or left with one of its own locks held
	CloseOnce      bool
	NoBody         bool
	Loops          map[int]*LoopContract
	Params         map[string]*ParamContract
	AllocBound     *Clause
	RecDecreases   *Clause // variant of direct recursion: 0 <= E(args) < E(params) at every self call
	Locks          []string
	File           string
	Line           int
	Used           bool
}

// GhostUpdate: ghostat "text"#k g(args) := e; h(args) := e2 - simultaneous assignments to ghost heaps
// (all right-hand sides and indices are evaluated in the state before the update).
type GhostUpdate struct {
	Loc   string
	Nth   int
	Text  string
	LHS   []ast.Expr
	RHS   []ast.Expr
	sites int
}

type SpecFunc struct {
	Name    string
	PkgName string
	Params  []*ast.Field
	PNames  []string
	PTypes  []ast.Expr
	Result  ast.Expr
	Body    ast.Expr
	Text    string
	File    string
	Rec     bool
	Ghost   bool // ghost heap: a state-dependent map from the arguments to the result
}

type Axiom struct {
	Name    string
	PkgName string
	Vars    []*ast.Field
	Expr    ast.Expr
	Text    string
	Lemma   bool
	File    string
}

type Monitor struct {
	PkgName string
	Type    string // struct type name owning the mutex field
	Field   string // mutex field
	Guards  []string
	Inv     *Clause
	Also    []string // "Type.field" of other structs protected by this lock (the lock owner is found among the function's parameters)
	Closes  []string // channel fields whose closed/open status is protected by this lock (the field itself never changes)
	Owner   string   // function key of the single writer goroutine: its own reads need no lock
	File    string
}

type Contracts struct {
	Funcs    map[string]*FuncContract
	Specs    map[string]*SpecFunc // key pkg.name and bare name
	Axioms   []*Axiom
	Monitors []*Monitor
	Decls    map[string][]string // pkg -> misc declarations (confined, shared, ...)
	Errors   []string
}

func newContracts() *Contracts {
	return &Contracts{Funcs: map[string]*FuncContract{}, Specs: map[string]*SpecFunc{}, Decls: map[string][]string{}}
}

var keywordRe = regexp.MustCompile(`^(func|requires|ensures_on_panic|ensures|summary|assertat|checkif|check|functional|closeonce|callpreif|callpremust|callpre|dyncall|ghost|atunlock|sendpre|nomonitor|unknowncalls|literals|modifies|pure|trusted|strict|mathint|maypanic|nobody|loop|param|spec|axiom|lemma|monitor|allocbound|recdecreases|holdslock|ghostat|decl)\b`)

// preprocess rewrites `A ==> B` into implies(A, B) (lowest precedence within its paren group)
// and `A <==> B` into iff(A, B).
func preprocess(s string) string {
	for {
		i := findTop(s, "<==>")
		op := "iff"
		n := 4
		j := findTopImplies(s)
		if j >= 0 && (i < 0 || false) {
			i, op, n = j, "implies", 3
		}
		if i < 0 {
			return s
		}
		// find group bounds
		lo := groupStart(s, i)
		hi := groupEnd(s, i+n)
		a := strings.TrimSpace(s[lo:i])
		b := strings.TrimSpace(s[i+n : hi])
		s = s[:lo] + " " + op + "(" + preprocess(a) + ", " + preprocess(b) + ")" + s[hi:]
	}
}

func findTop(s, tok string) int {
	// first occurrence anywhere (any depth); group bounds handle nesting
	inStr := false
	for i := 0; i+len(tok) <= len(s); i++ {
		if s[i] == '"' {
			inStr = !inStr
		}
		if inStr {
			continue
		}
		if s[i:i+len(tok)] == tok {
			return i
		}
	}
	return -1
}

func findTopImplies(s string) int {
	inStr := false
	for i := 0; i+3 <= len(s); i++ {
		if s[i] == '"' {
			inStr = !inStr
		}
		if inStr {
			continue
		}
		if s[i:i+3] == "==>" && (i == 0 || s[i-1] != '<') {
			return i
		}
	}
	return -1
}

func groupStart(s string, i int) int {
	d := 0
	for k := i - 1; k >= 0; k-- {
		switch s[k] {
		case ')', ']':
			d++
		case '(', '[':
			if d == 0 {
				return k + 1
			}
			d--
		case ',':
			if d == 0 {
				return k + 1
			}
		}
	}
	return 0
}

func groupEnd(s string, i int) int {
	d := 0
	for k := i; k < len(s); k++ {
		switch s[k] {
		case '(', '[':
			d++
		case ')', ']':
			if d == 0 {
				return k
			}
			d--
		case ',':
			if d == 0 {
				return k
			}
		}
	}
	return len(s)
}

func parseSpecExpr(s string) (ast.Expr, error) {
	p := preprocess(s)
	e, err := parser.ParseExpr(p)
	if err != nil {
		return nil, fmt.Errorf("parse %q: %v", p, err)
	}
	return e, nil
}

// parseContractFile reads //@ lines from a file. pkgName prefixes local function keys.
func (cs *Contracts) parseContractFile(path string, content []byte, pkgName string) {
	lines := strings.Split(string(content), "\n")
	type item struct {
		text string
		line int
	}
	var items []item
	for i, l := range lines {
		t := strings.TrimSpace(l)
		if !strings.HasPrefix(t, "//@") {
			continue
		}
		body := strings.TrimPrefix(t, "//@")
		tb := strings.TrimSpace(body)
		if tb == "" {
			continue
		}
		if strings.HasPrefix(tb, "#") {
			continue
		}
		if keywordRe.MatchString(tb) {
			items = append(items, item{tb, i + 1})
		} else if len(items) > 0 {
			items[len(items)-1].text += " " + tb
		} else {
			cs.Errors = append(cs.Errors, fmt.Sprintf("%s:%d: continuation without clause", path, i+1))
		}
	}
	var cur *FuncContract
	fail := func(line int, f string, a ...any) {
		cs.Errors = append(cs.Errors, fmt.Sprintf("%s:%d: %s", path, line, fmt.Sprintf(f, a...)))
	}
	mk := func(text string, line int) *Clause {
		e, err := parseSpecExpr(text)
		if err != nil {
			fail(line, "%v", err)
			return nil
		}
		return &Clause{Text: text, Expr: e, File: path, Line: line}
	}
	for _, it := range items {
		kw := keywordRe.FindString(it.text)
		rest := strings.TrimSpace(it.text[len(kw):])
		switch kw {
		case "func":
			key := qualifyFuncName(rest, pkgName)
			if old, ok := cs.Funcs[key]; ok {
				cur = old
			} else {
				cur = &FuncContract{Key: key, PkgName: pkgName, Loops: map[int]*LoopContract{}, Params: map[string]*ParamContract{}, File: path, Line: it.line}
				cs.Funcs[key] = cur
			}
		case "requires", "ensures", "ensures_on_panic", "summary":
			if cur == nil {
				fail(it.line, "%s outside func", kw)
				continue
			}
			c := mk(rest, it.line)
			if c == nil {
				continue
			}
			switch kw {
			case "requires":
				cur.Requires = append(cur.Requires, c)
			case "ensures":
				cur.Ensures = append(cur.Ensures, c)
			case "summary":
				// a postcondition callers may assume although the body is not checked against it (an assumption, listed
				// in the evidence); everything else in the contract is verified as usual
				c.Assumed = true
				cur.Ensures = append(cur.Ensures, c)
			default:
				cur.EnsuresP = append(cur.EnsuresP, c)
			}
		case "modifies":
			if cur == nil {
				fail(it.line, "modifies outside func")
				continue
			}
			cur.HasMod = true
			if rest == "" || rest == "nothing" {
				continue
			}
			for _, part := range splitTopComma(rest) {
				if c := mk(part, it.line); c != nil {
					cur.Modifies = append(cur.Modifies, c)
				}
			}
		case "callpre", "callpreif", "callpremust":
			if cur == nil {
				fail(it.line, "callpre outside func")
				continue
			}
			f := strings.Fields(rest)
			if len(f) < 2 {
				fail(it.line, "bad callpre")
				continue
			}
			body := strings.TrimSpace(strings.TrimPrefix(rest, f[0]))
			if c := mk(body, it.line); c != nil {
				// callpreif: applies only at the call sites where every local it names is in scope (one at least)
				c.WhereDefined = kw == "callpreif"
				c.Must = kw == "callpremust"
				if cur.CallPre == nil {
					cur.CallPre = map[string][]*Clause{}
				}
				cur.CallPre[f[0]] = append(cur.CallPre[f[0]], c)
			}
		case "dyncall":
			if cur == nil {
				fail(it.line, "dyncall outside func")
				continue
			}
			body := strings.TrimSpace(strings.TrimPrefix(rest, "modifies"))
			cur.HasDynMod = true
			if body != "" && body != "nothing" {
				for _, part := range splitTopComma(body) {
					if c := mk(part, it.line); c != nil {
						cur.DynMod = append(cur.DynMod, c)
					}
				}
			}
		case "sendpre":
			if cur == nil {
				fail(it.line, "sendpre outside func")
				continue
			}
			if c := mk(rest, it.line); c != nil {
				cur.SendPre = append(cur.SendPre, c)
			}
		case "nomonitor":
			if cur != nil {
				cur.NoMonitor = true
			}
		case "unknowncalls":
			if cur != nil {
				cur.UnknownLikeDyn = true
			}
		case "literals":
			if cur != nil {
				cur.LitPred = strings.TrimSpace(rest)
			}
		case "assertat":
			// assertat "source text"[#k] expr : a ghost assertion before the statement on the k-th line of the function
			// that contains the text (locals in scope there may be named)
			if cur == nil {
				fail(it.line, "assertat outside func")
				continue
			}
			r := strings.TrimSpace(rest)
			if !strings.HasPrefix(r, "\"") {
				fail(it.line, "assertat needs a quoted source text")
				continue
			}
			end := strings.Index(r[1:], "\"")
			if end < 0 {
				fail(it.line, "assertat: unterminated text")
				continue
			}
			loc := r[1 : 1+end]
			r = r[2+end:]
			nth := 0
			if strings.HasPrefix(r, "#") {
				j := 1
				for j < len(r) && r[j] >= '0' && r[j] <= '9' {
					nth = nth*10 + int(r[j]-'0')
					j++
				}
				r = r[j:]
			}
			if c := mk(strings.TrimSpace(r), it.line); c != nil {
				c.Loc, c.Nth = loc, nth
				cur.AssertAt = append(cur.AssertAt, c)
			}
		case "ghostat":
			if cur == nil {
				fail(it.line, "ghostat outside func")
				continue
			}
			r := strings.TrimSpace(rest)
			if !strings.HasPrefix(r, "\"") {
				fail(it.line, "ghostat: expected quoted source text")
				continue
			}
			end := strings.Index(r[1:], "\"")
			if end < 0 {
				fail(it.line, "ghostat: unterminated text")
				continue
			}
			gu := &GhostUpdate{Loc: r[1 : 1+end]}
			r = r[2+end:]
			if strings.HasPrefix(r, "#") {
				j := 1
				for j < len(r) && r[j] >= '0' && r[j] <= '9' {
					gu.Nth = gu.Nth*10 + int(r[j]-'0')
					j++
				}
				r = r[j:]
			}
			gu.Text = strings.TrimSpace(r)
			okAll := true
			for _, asg := range strings.Split(gu.Text, ";") {
				lr := strings.SplitN(asg, ":=", 2)
				if len(lr) != 2 {
					okAll = false
					break
				}
				l, err1 := parser.ParseExpr(strings.TrimSpace(lr[0]))
				rr, err2 := parser.ParseExpr(strings.TrimSpace(lr[1]))
				if err1 != nil || err2 != nil {
					okAll = false
					break
				}
				gu.LHS = append(gu.LHS, l)
				gu.RHS = append(gu.RHS, rr)
			}
			if !okAll || len(gu.LHS) == 0 {
				fail(it.line, "ghostat: expected g(args) := expr [; ...]")
				continue
			}
			cur.GhostAt = append(cur.GhostAt, gu)
		case "atunlock":
			if cur == nil {
				fail(it.line, "atunlock outside func")
				continue
			}
			if c := mk(rest, it.line); c != nil {
				cur.AtUnlock = append(cur.AtUnlock, c)
			}
		case "check":
			if cur == nil {
				fail(it.line, "check outside func")
				continue
			}
			if c := mk(rest, it.line); c != nil {
				cur.Checks = append(cur.Checks, c)
			}
		case "checkif":
			// check evaluated at the returns where all the locals it mentions are defined
			if cur == nil {
				fail(it.line, "checkif outside func")
				continue
			}
			if c := mk(rest, it.line); c != nil {
				c.WhereDefined = true
				cur.Checks = append(cur.Checks, c)
			}
		case "functional":
			if cur != nil {
				cur.Functional = true
			}
		case "closeonce":
			if cur != nil {
				cur.CloseOnce = true
			}
		case "pure":
			if cur != nil {
				cur.Pure = true
				cur.HasMod = true
			}
		case "trusted":
			if cur != nil {
				cur.Trusted = true
			}
		case "strict":
			if cur != nil {
				cur.Strict = true
			}
		case "mathint":
			if cur != nil {
				cur.MathInt = true
			}
		case "maypanic":
			if cur != nil {
				cur.MayPanic = true
			}
		case "holdslock":
			if cur != nil {
				cur.HoldsLock = true
			}
		case "nobody":
			if cur != nil {
				cur.NoBody = true
			}
		case "allocbound":
			if cur != nil {
				cur.AllocBound = mk(rest, it.line)
			}
		case "recdecreases":
			if cur != nil {
				cur.RecDecreases = mk(rest, it.line)
			}
		case "loop":
			if cur == nil {
				fail(it.line, "loop outside func")
				continue
			}
			f := strings.Fields(rest)
			if len(f) < 3 {
				fail(it.line, "bad loop clause")
				continue
			}
			n, err := strconv.Atoi(f[0])
			if err != nil {
				fail(it.line, "bad loop ordinal")
				continue
			}
			lc := cur.Loops[n]
			if lc == nil {
				lc = &LoopContract{}
				cur.Loops[n] = lc
			}
			body := strings.TrimSpace(strings.TrimPrefix(strings.TrimSpace(strings.TrimPrefix(rest, f[0])), f[1]))
			c := mk(body, it.line)
			if c == nil {
				continue
			}
			switch f[1] {
			case "invariant":
				lc.Invariants = append(lc.Invariants, c)
			case "decreases":
				lc.Decreases = c
			default:
				fail(it.line, "bad loop clause kind %s", f[1])
			}
		case "param":
			if cur == nil {
				fail(it.line, "param outside func")
				continue
			}
			f := strings.Fields(rest)
			if len(f) < 2 {
				fail(it.line, "bad param clause")
				continue
			}
			if len(f) == 2 {
				f = append(f, "")
			}
			pc := cur.Params[f[0]]
			if pc == nil {
				pc = &ParamContract{}
				cur.Params[f[0]] = pc
			}
			body := strings.TrimSpace(strings.TrimPrefix(strings.TrimSpace(strings.TrimPrefix(rest, f[0])), f[1]))
			switch f[1] {
			case "requires":
				if c := mk(body, it.line); c != nil {
					pc.Requires = append(pc.Requires, c)
				}
			case "ensures":
				if c := mk(body, it.line); c != nil {
					pc.Ensures = append(pc.Ensures, c)
				}
			case "maypanic":
				pc.MayPanic = true
			case "modifies":
				pc.HasMod = true
				if body != "" && body != "nothing" {
					for _, part := range splitTopComma(body) {
						if c := mk(part, it.line); c != nil {
							pc.Modifies = append(pc.Modifies, c)
						}
					}
				}
			}
		case "ghost":
			cs.parseSpecFunc(path, it.line, "func "+rest, pkgName)
			// mark as ghost heap
			name := strings.TrimSpace(rest)
			if i := strings.Index(name, "("); i >= 0 {
				name = name[:i]
			}
			if sf := cs.Specs[pkgName+"."+name]; sf != nil {
				sf.Ghost = true
			}
		case "spec":
			cs.parseSpecFunc(path, it.line, rest, pkgName)
		case "axiom", "lemma":
			cs.parseAxiom(path, it.line, rest, pkgName, kw == "lemma")
		case "monitor":
			cs.parseMonitor(path, it.line, rest, pkgName)
		case "decl":
			cs.Decls[pkgName] = append(cs.Decls[pkgName], rest)
		}
	}
}

func splitTopComma(s string) []string {
	var out []string
	d := 0
	last := 0
	for i := 0; i < len(s); i++ {
		switch s[i] {
		case '(', '[':
			d++
		case ')', ']':
			d--
		case ',':
			if d == 0 {
				out = append(out, strings.TrimSpace(s[last:i]))
				last = i + 1
			}
		}
	}
	out = append(out, strings.TrimSpace(s[last:]))
	return out
}

// spec func name(a T, b U) R = expr      |  spec func name(a T) R   (uninterpreted)
func (cs *Contracts) parseSpecFunc(path string, line int, rest, pkgName string) {
	rest = strings.TrimSpace(rest)
	rec := false
	if strings.HasPrefix(rest, "rec ") {
		rec = true
		rest = strings.TrimSpace(rest[4:])
	}
	if !strings.HasPrefix(rest, "func ") {
		cs.Errors = append(cs.Errors, fmt.Sprintf("%s:%d: spec must be followed by func", path, line))
		return
	}
	head := rest
	body := ""
	// find " = " at top level after the signature
	d := 0
	for i := 0; i < len(rest); i++ {
		switch rest[i] {
		case '(', '[':
			d++
		case ')', ']':
			d--
		case '=':
			if d == 0 && i+1 < len(rest) && rest[i+1] != '=' && rest[i-1] != '!' && rest[i-1] != '<' && rest[i-1] != '>' && rest[i-1] != '=' {
				head = strings.TrimSpace(rest[:i])
				body = strings.TrimSpace(rest[i+1:])
				i = len(rest)
			}
		}
	}
	src := "package p\n" + head + "\n"
	fset := token.NewFileSet()
	f, err := parser.ParseFile(fset, "spec.go", src, 0)
	if err != nil || len(f.Decls) != 1 {
		cs.Errors = append(cs.Errors, fmt.Sprintf("%s:%d: bad spec func header %q: %v", path, line, head, err))
		return
	}
	fd := f.Decls[0].(*ast.FuncDecl)
	sf := &SpecFunc{Name: fd.Name.Name, PkgName: pkgName, Text: rest, File: path, Rec: rec}
	for _, fld := range fd.Type.Params.List {
		for _, n := range fld.Names {
			sf.PNames = append(sf.PNames, n.Name)
			sf.PTypes = append(sf.PTypes, fld.Type)
		}
	}
	if fd.Type.Results != nil && len(fd.Type.Results.List) == 1 {
		sf.Result = fd.Type.Results.List[0].Type
	}
	if body != "" {
		e, err := parseSpecExpr(body)
		if err != nil {
			cs.Errors = append(cs.Errors, fmt.Sprintf("%s:%d: %v", path, line, err))
			return
		}
		sf.Body = e
	}
	cs.Specs[pkgName+"."+sf.Name] = sf
	if _, dup := cs.Specs[sf.Name]; !dup {
		cs.Specs[sf.Name] = sf
	}
}

// axiom name(x T, y U): expr
func (cs *Contracts) parseAxiom(path string, line int, rest, pkgName string, lemma bool) {
	i := strings.Index(rest, ":")
	if i < 0 {
		cs.Errors = append(cs.Errors, fmt.Sprintf("%s:%d: axiom needs name(vars): expr", path, line))
		return
	}
	head := strings.TrimSpace(rest[:i])
	body := strings.TrimSpace(rest[i+1:])
	if !strings.Contains(head, "(") {
		head += "()"
	}
	src := "package p\nfunc " + head + "\n"
	fset := token.NewFileSet()
	f, err := parser.ParseFile(fset, "ax.go", src, 0)
	if err != nil || len(f.Decls) != 1 {
		cs.Errors = append(cs.Errors, fmt.Sprintf("%s:%d: bad axiom header %q: %v", path, line, head, err))
		return
	}
	fd := f.Decls[0].(*ast.FuncDecl)
	e, err := parseSpecExpr(body)
	if err != nil {
		cs.Errors = append(cs.Errors, fmt.Sprintf("%s:%d: %v", path, line, err))
		return
	}
	cs.Axioms = append(cs.Axioms, &Axiom{Name: fd.Name.Name, PkgName: pkgName, Vars: fd.Type.Params.List, Expr: e, Text: rest, Lemma: lemma, File: path})
}

// monitor Type.mu guards f1, f2 [invariant expr]
func (cs *Contracts) parseMonitor(path string, line int, rest, pkgName string) {
	inv := ""
	if i := strings.Index(rest, " invariant "); i >= 0 {
		inv = strings.TrimSpace(rest[i+len(" invariant "):])
		rest = rest[:i]
	}
	var also []string
	if i := strings.Index(rest, " also "); i >= 0 {
		for _, a := range strings.Split(rest[i+len(" also "):], ",") {
			also = append(also, strings.TrimSpace(a))
		}
		rest = rest[:i]
	}
	var closes []string
	if i := strings.Index(rest, " closes "); i >= 0 {
		for _, a := range strings.Split(rest[i+len(" closes "):], ",") {
			closes = append(closes, strings.TrimSpace(a))
		}
		rest = rest[:i]
	}
	owner := ""
	if i := strings.Index(rest, " owner "); i >= 0 {
		owner = strings.TrimSpace(rest[i+len(" owner "):])
		rest = rest[:i]
	}
	parts := strings.SplitN(rest, " guards ", 2)
	if len(parts) != 2 {
		cs.Errors = append(cs.Errors, fmt.Sprintf("%s:%d: monitor needs 'guards'", path, line))
		return
	}
	tf := strings.SplitN(strings.TrimSpace(parts[0]), ".", 2)
	if len(tf) != 2 {
		cs.Errors = append(cs.Errors, fmt.Sprintf("%s:%d: monitor needs Type.field", path, line))
		return
	}
	m := &Monitor{PkgName: pkgName, Type: tf[0], Field: tf[1], File: path, Owner: qualifyFuncName(owner, pkgName), Also: also, Closes: closes}
	for _, g := range strings.Split(parts[1], ",") {
		m.Guards = append(m.Guards, strings.TrimSpace(g))
	}
	if inv != "" {
		e, err := parseSpecExpr(inv)
		if err != nil {
			cs.Errors = append(cs.Errors, fmt.Sprintf("%s:%d: %v", path, line, err))
			return
		}
		m.Inv = &Clause{Text: inv, Expr: e, File: path, Line: line}
	}
	cs.Monitors = append(cs.Monitors, m)
}

func readFileOrOverlay(path string, overlay map[string][]byte) ([]byte, error) {
	if b, ok := overlay[path]; ok {
		return b, nil
	}
	return os.ReadFile(path)
}

var pathPrefixRe = regexp.MustCompile(`([A-Za-z0-9_.\-]+/)+`)

// normName shortens fully qualified names: github.com/x/y/pkg/server.Foo -> server.Foo
func normName(s string) string {
	return pathPrefixRe.ReplaceAllString(s, "")
}

func qualifyFuncName(name, pkg string) string {
	if pkg == "" {
		return name
	}
	if strings.HasPrefix(name, "(") {
		end := strings.Index(name, ")")
		if end < 0 {
			return name
		}
		recv := name[1:end]
		star := ""
		if strings.HasPrefix(recv, "*") {
			star = "*"
			recv = recv[1:]
		}
		if !strings.Contains(recv, ".") {
			recv = pkg + "." + recv
		}
		return "(" + star + recv + ")" + name[end+1:]
	}
	if strings.Contains(name, ".") {
		return name
	}
	return pkg + "." + name
}
