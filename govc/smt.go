package main

import (
	"fmt"
	"strings"
)

// Term is SMT-LIB text. Sort is SMT-LIB sort text.
type Term = string
type Sort = string

func app(f string, args ...Term) Term {
	if len(args) == 0 {
		return f
	}
	return "(" + f + " " + strings.Join(args, " ") + ")"
}

func and(ts ...Term) Term {
	var xs []Term
	for _, t := range ts {
		if t == "true" || t == "" {
			continue
		}
		if t == "false" {
			return "false"
		}
		xs = append(xs, t)
	}
	switch len(xs) {
	case 0:
		return "true"
	case 1:
		return xs[0]
	}
	return app("and", xs...)
}

func or(ts ...Term) Term {
	var xs []Term
	for _, t := range ts {
		if t == "false" || t == "" {
			continue
		}
		if t == "true" {
			return "true"
		}
		xs = append(xs, t)
	}
	switch len(xs) {
	case 0:
		return "false"
	case 1:
		return xs[0]
	}
	return app("or", xs...)
}

func not(t Term) Term {
	switch t {
	case "true":
		return "false"
	case "false":
		return "true"
	}
	if strings.HasPrefix(t, "(not ") && strings.HasSuffix(t, ")") && balanced(t[5:len(t)-1]) {
		return t[5 : len(t)-1]
	}
	return app("not", t)
}

func balanced(s string) bool {
	d := 0
	inq := false
	for i := 0; i < len(s); i++ {
		c := s[i]
		if c == '|' {
			inq = !inq
		}
		if inq {
			continue
		}
		if c == '(' {
			d++
		} else if c == ')' {
			d--
			if d < 0 {
				return false
			}
		} else if c == ' ' && d == 0 {
			return false
		}
	}
	return d == 0
}

func implies(a, b Term) Term {
	if a == "true" {
		return b
	}
	if a == "false" || b == "true" {
		return "true"
	}
	return app("=>", a, b)
}

func eq(a, b Term) Term {
	if a == b {
		return "true"
	}
	return app("=", a, b)
}
func ite(c, a, b Term) Term {
	if c == "true" {
		return a
	}
	if c == "false" {
		return b
	}
	if a == b {
		return a
	}
	return app("ite", c, a, b)
}
func sel(a Term, i ...Term) Term {
	for _, x := range i {
		a = app("select", a, x)
	}
	return a
}

// sto performs a nested store: a[i0][i1].. := v
func sto(a Term, idx []Term, v Term) Term {
	if len(idx) == 0 {
		return v
	}
	if len(idx) == 1 {
		return app("store", a, idx[0], v)
	}
	inner := sto(app("select", a, idx[0]), idx[1:], v)
	return app("store", a, idx[0], inner)
}

func num(n int64) Term {
	if n < 0 {
		if n == -9223372036854775808 {
			return "(- 9223372036854775808)"
		}
		return fmt.Sprintf("(- %d)", -n)
	}
	return fmt.Sprintf("%d", n)
}

// q quotes an identifier for SMT-LIB if needed.
func q(s string) string {
	ok := true
	for i := 0; i < len(s); i++ {
		c := s[i]
		if (c >= 'a' && c <= 'z') || (c >= 'A' && c <= 'Z') || (c >= '0' && c <= '9' && i > 0) || c == '_' || c == '!' || c == '.' || c == '$' || c == '@' {
			continue
		}
		ok = false
		break
	}
	if ok && s != "" {
		return s
	}
	s = strings.ReplaceAll(s, "|", "¦")
	s = strings.ReplaceAll(s, "\\", "/")
	return "|" + s + "|"
}

func arraySort(idx, val Sort) Sort { return "(Array " + idx + " " + val + ")" }

func forall(vars [][2]string, body Term) Term {
	if len(vars) == 0 {
		return body
	}
	var b strings.Builder
	b.WriteString("(forall (")
	for _, v := range vars {
		b.WriteString("(" + v[0] + " " + v[1] + ")")
	}
	b.WriteString(") " + body + ")")
	return b.String()
}
func exists(vars [][2]string, body Term) Term {
	if len(vars) == 0 {
		return body
	}
	var b strings.Builder
	b.WriteString("(exists (")
	for _, v := range vars {
		b.WriteString("(" + v[0] + " " + v[1] + ")")
	}
	b.WriteString(") " + body + ")")
	return b.String()
}
