package main

import (
	"fmt"
	"go/ast"
	"go/token"
	"go/types"
	"strings"

	"golang.org/x/tools/go/ssa"
)

var purePkgs = map[string]bool{
	"strings": true, "strconv": true, "unicode": true, "unicode/utf8": true, "math": true, "path": true,
	"path/filepath": true, "errors": true, "fmt": true, "regexp": true, "net": true, "mime": true, "time": true,
	"net/url": true, "encoding/base64": true, "encoding/hex": true, "math/bits": true, "html": true, "log": true,
	"reflect": true, "os": true, "bytes": true, "sort": false, "encoding/json": true, "net/http": true, "io": true,
	"math/rand": true, "crypto/subtle": true, "net/textproto": true, "context": true, "sync/atomic": true, "crypto/sha256": true, "crypto/hmac": true, "unicode/utf16": true, "hash/fnv": true, "html/template": true, "text/template": true,
}

// impure members of otherwise heap-pure packages (they write caller-visible Go memory)
var impureFuncs = map[string]bool{
	"(reflect.Value).Call": true, "(reflect.Value).Set": true, "json.Unmarshal": true, "(*json.Decoder).Decode": true,
	"io.ReadFull": true, "(*bytes.Buffer).Write": true, "(*bytes.Buffer).WriteString": true, "(*bytes.Buffer).WriteByte": true,
	"(*strings.Builder).WriteString": true, "(*strings.Builder).WriteByte": true, "(*strings.Builder).WriteRune": true, "(*strings.Builder).Write": true,
	"(*strings.Builder).Reset": true, "(*strings.Builder).Grow": true,
}

func calleePkgPath(fn *ssa.Function) string {
	if fn.Pkg != nil {
		return fn.Pkg.Pkg.Path()
	}
	if o := fn.Object(); o != nil && o.Pkg() != nil {
		return o.Pkg().Path()
	}
	return ""
}

func (ft *FT) callName(c *ssa.CallCommon) (name string, callee *ssa.Function, closure *ssa.MakeClosure) {
	if c.IsInvoke() {
		return "(" + normName(types.TypeString(c.Value.Type(), nil)) + ")." + c.Method.Name(), nil, nil
	}
	if mc, ok := c.Value.(*ssa.MakeClosure); ok {
		f := mc.Fn.(*ssa.Function)
		return normName(f.String()), f, mc
	}
	if f := c.StaticCallee(); f != nil {
		return normName(f.String()), f, nil
	}
	return dynName(c), nil, nil
}

// dynName: the contract key of a dynamic call through a value of a named func type: dyn(pkg.Type)
func dynName(c *ssa.CallCommon) string {
	if c.IsInvoke() || c.StaticCallee() != nil {
		return ""
	}
	if _, ok := c.Value.(*ssa.Builtin); ok {
		return ""
	}
	if n, ok := types.Unalias(c.Value.Type()).(*types.Named); ok {
		return "dyn(" + normName(types.TypeString(n, nil)) + ")"
	}
	return ""
}

// calleeWrites: syntactic transitive write set of a function (foreign mode: callee-local cells ignored).
func (ft *FT) calleeWrites(fn *ssa.Function, seen map[*ssa.Function]bool) (map[string]bool, bool) {
	keys := map[string]bool{}
	if seen[fn] {
		return keys, false
	}
	seen[fn] = true
	name := normName(fn.String())
	if con := ft.eng.cons.Funcs[name]; con != nil && con.HasMod && (fn.Blocks == nil || con.Trusted) {
		keys["$next"] = true
		return keys, false
	}
	if fn.Blocks == nil {
		if ft.eng.models[name] != nil {
			return keys, false
		}
		if purePkgs[calleePkgPath(fn)] && !isImpure(name) {
			keys["$next"] = true
			return keys, false
		}
		return keys, true
	}
	all := false
	for _, b := range fn.Blocks {
		for _, ins := range b.Instrs {
			switch x := ins.(type) {
			case *ssa.Store:
				for _, k := range ft.foreignKeysOfAddr(x.Addr) {
					keys[k] = true
				}
			case *ssa.MapUpdate:
				for _, k := range ft.mapKeys(x.Map.Type().Underlying().(*types.Map)) {
					keys[k] = true
				}
			case *ssa.Alloc:
				keys["$next"] = true
				if !ft.privateAlloc(x) {
					for _, k := range ft.foreignKeysOfAddr(x) {
						keys[k] = true
					}
				}
			case *ssa.MakeMap:
				keys["$next"] = true
				for _, k := range ft.mapKeys(x.Type().Underlying().(*types.Map)) {
					keys[k] = true
				}
			case *ssa.MakeSlice:
				keys["$next"] = true
				keys[ft.elemKey(x.Type().Underlying().(*types.Slice).Elem())] = true
			case *ssa.MakeChan, *ssa.MakeClosure:
				keys["$next"] = true
			case *ssa.Convert:
				if isString(x.X.Type()) {
					if sl, ok := x.Type().Underlying().(*types.Slice); ok {
						keys["$next"] = true
						keys[ft.elemKey(sl.Elem())] = true
					}
				}
			case ssa.CallInstruction:
				if _, isGo := x.(*ssa.Go); isGo {
					continue
				}
				ks, a := ft.callWritesSeen(x.Common(), seen)
				if a {
					all = true
				}
				for _, k := range ks {
					keys[k] = true
				}
			}
		}
	}
	return keys, all
}

func (ft *FT) foreignKeysOfAddr(addr ssa.Value) []string {
	switch a := addr.(type) {
	case *ssa.FieldAddr:
		switch bx := a.X.(type) {
		case *ssa.FieldAddr, *ssa.IndexAddr:
			return ft.foreignKeysOfAddr(bx)
		case *ssa.Alloc:
			if ft.privateAlloc(bx) {
				return nil
			}
		}
		bt := deref(a.X.Type())
		stt, _ := ft.structOf(bt)
		f := stt.Field(a.Field)
		k := fieldKey(bt, f)
		ft.keySort(k, arraySort("Int", ft.d.sortOf(f.Type())))
		return []string{k}
	case *ssa.IndexAddr:
		switch xt := a.X.Type().Underlying().(type) {
		case *types.Slice:
			return []string{ft.elemKey(xt.Elem())}
		case *types.Pointer:
			if inner, ok := a.X.(*ssa.FieldAddr); ok {
				return ft.foreignKeysOfAddr(inner)
			}
			at := xt.Elem().Underlying().(*types.Array)
			return []string{ft.elemKey(at.Elem())}
		}
	case *ssa.Alloc:
		if ft.privateAlloc(a) {
			return nil
		}
	}
	saved := ft.locs
	ft.locs = map[ssa.Value]*Loc{}
	defer func() { ft.locs = saved }()
	if al, ok := addr.(*ssa.Alloc); ok {
		elem := deref(al.Type())
		if stt, ok := elem.Underlying().(*types.Struct); ok && !isOpaqueInt(elem) {
			var ks []string
			for i := 0; i < stt.NumFields(); i++ {
				k := fieldKey(elem, stt.Field(i))
				ft.keySort(k, arraySort("Int", ft.d.sortOf(stt.Field(i).Type())))
				ks = append(ks, k)
			}
			return ks
		}
		if at, ok := elem.Underlying().(*types.Array); ok {
			return []string{ft.elemKey(at.Elem())}
		}
		return []string{ft.cellKey(elem)}
	}
	return ft.keysOfAddr(addr)
}

func (ft *FT) callWrites(c *ssa.CallCommon) ([]string, bool) {
	return ft.callWritesSeen(c, map[*ssa.Function]bool{})
}

// declaredFrameKeys: the heap keys named in the modifies clause of a statically known callee that has a body and a
// (non-trusted) contract with a modifies clause; ok is false when there is no such clause or it cannot be resolved.
func (ft *FT) declaredFrameKeys(c *ssa.CallCommon) (map[string]bool, bool) {
	if _, ok := c.Value.(*ssa.Builtin); ok {
		return nil, false
	}
	name, callee, _ := ft.callName(c)
	if ft.eng.models[name] != nil || callee == nil || callee.Blocks == nil {
		return nil, false
	}
	con := ft.eng.cons.Funcs[name]
	if con == nil || !con.HasMod || con.Trusted {
		return nil, false
	}
	out := map[string]bool{}
	if len(con.Modifies) == 0 {
		return out, true
	}
	dummy := make([]Term, 0, 8)
	n := c.Signature().Params().Len() + 1
	for i := 0; i < n; i++ {
		dummy = append(dummy, "0")
	}
	ctx := ft.calleeCtx(callee, nil, c, dummy, ft.entry, ft.entry)
	targets, all, err := ft.modTargets(ctx, con.Modifies)
	if err != nil || all {
		return nil, false
	}
	for _, t := range targets {
		out[t.key] = true
	}
	return out, true
}

func (ft *FT) callWritesSeen(c *ssa.CallCommon, seen map[*ssa.Function]bool) ([]string, bool) {
	if b, ok := c.Value.(*ssa.Builtin); ok {
		switch b.Name() {
		case "append":
			sl := c.Args[0].Type().Underlying().(*types.Slice)
			return []string{ft.elemKey(sl.Elem()), "$next"}, false
		case "copy":
			sl := c.Args[0].Type().Underlying().(*types.Slice)
			return []string{ft.elemKey(sl.Elem())}, false
		case "delete":
			mt := c.Args[0].Type().Underlying().(*types.Map)
			return ft.mapKeys(mt), false
		case "close":
			ft.keySort("CLOSED", arraySort("Int", "Bool"))
			return []string{"CLOSED"}, false
		}
		return nil, false
	}
	name, callee, _ := ft.callName(c)
	if m := ft.eng.models[name]; m != nil {
		if seen != nil && len(seen) > 0 && strings.HasPrefix(name, "(*sync.") {
			// inside a callee: assumed lock-balanced, so the caller's view of HELD is unchanged
			return nil, false
		}
		return m.writesCall(ft, c), false
	}
	if con := ft.eng.cons.Funcs[name]; con != nil && con.HasMod && (callee == nil || callee.Blocks == nil || con.Trusted) {
		// declared frame of a trusted / body-less callee: the keys named in its modifies clause
		if len(con.Modifies) == 0 {
			return []string{"$next"}, false
		}
		dummy := make([]Term, 0, 8)
		n := c.Signature().Params().Len() + 1
		for i := 0; i < n; i++ {
			dummy = append(dummy, "0")
		}
		ctx := ft.calleeCtx(callee, nil, c, dummy, ft.entry, ft.entry)
		targets, all, err := ft.modTargets(ctx, con.Modifies)
		if err != nil || all {
			return nil, true
		}
		ks := []string{"$next"}
		for _, t := range targets {
			ks = append(ks, t.key)
		}
		return ks, false
	}
	if callee != nil {
		ks, all := ft.calleeWrites(callee, seen)
		if !all || !(ft.con != nil && ft.con.HasDynMod && ft.con.UnknownLikeDyn && len(seen) <= 1) {
			var out []string
			for k := range ks {
				out = append(out, k)
			}
			return out, all
		}
	}
	if pc := ft.paramContract(c.Value); pc != nil && pc.HasMod && len(pc.Modifies) == 0 {
		return []string{"$next"}, false
	}
	if dn := dynName(c); dn != "" {
		if con := ft.eng.cons.Funcs[dn]; con != nil && con.HasMod {
			if len(con.Modifies) == 0 {
				return []string{"$next"}, false
			}
			return nil, true
		}
	}
	if c.IsInvoke() && ft.inertInterface(c.Value.Type()) {
		return []string{"$next"}, false
	}
	if c.IsInvoke() {
		if n, ok := types.Unalias(c.Value.Type()).(*types.Named); ok && n.Obj().Pkg() != nil && isStdPath(n.Obj().Pkg().Path()) {
			return []string{"$next"}, false
		}
		if isErrorType(c.Value.Type()) {
			return []string{"$next"}, false
		}
	}
	if ft.con != nil && ft.con.HasDynMod && ((callee == nil && !c.IsInvoke()) || ft.con.UnknownLikeDyn) {
		ctx := ft.specCtx(ft.entry, ft.entry)
		targets, all, err := ft.modTargets(ctx, ft.con.DynMod)
		if err == nil && !all {
			ks := []string{"$next"}
			for _, t := range targets {
				ks = append(ks, t.key)
			}
			return ks, false
		}
	}
	return nil, true
}

// paramContract: contract attached to a func-typed parameter / captured variable being called.
func (ft *FT) paramContract(v ssa.Value) *ParamContract {
	if ft.con == nil {
		return nil
	}
	name := ""
	switch x := v.(type) {
	case *ssa.Parameter:
		name = x.Name()
	case *ssa.UnOp:
		if fv, ok := x.X.(*ssa.FreeVar); ok {
			name = fv.Name()
		}
		if al, ok := x.X.(*ssa.Alloc); ok {
			name = al.Comment
		}
	case *ssa.FreeVar:
		name = x.Name()
	}
	if name == "" {
		return nil
	}
	return ft.con.Params[name]
}

func (ft *FT) call(st *State, guard Term, c *ssa.CallCommon, preArgs []Term, instr ssa.Instruction, pos token.Pos) []Term {
	sig := c.Signature()
	if b, ok := c.Value.(*ssa.Builtin); ok {
		return ft.builtin(st, guard, b, c, preArgs, pos)
	}
	var args []Term
	if preArgs != nil {
		args = preArgs
	} else {
		if c.IsInvoke() {
			args = append(args, ft.val(c.Value))
		}
		for _, a := range c.Args {
			args = append(args, ft.val(a))
		}
	}
	name, callee, closure := ft.callName(c)
	if c.IsInvoke() {
		if ft.nonnilInterface(c.Value.Type()) {
			ft.note("assumed: a " + c.Value.Type().String() + " on which a method is called is not the nil interface (decl nonnil)")
		} else {
			ft.safety("nil", pos, guard, not(eq(app("dyn", args[0]), "0")))
		}
	}
	// lock discipline at call sites: the callee locks a mutex of one of its parameters, so the caller
	// must not hold it (a second Lock, or an RLock behind a waiting writer, never returns). Required
	// where the locked object is one of the caller's own parameters (whose mutexes are known to be free
	// at entry), advisory for other objects.
	if ft.con != nil && !ft.con.HoldsLock && callee != nil && callee.Blocks != nil && callee != ft.fn {
		if cc := ft.eng.cons.Funcs[name]; cc == nil || !cc.HoldsLock {
			if pls := directParamLocks(callee); len(pls) > 0 {
				cctx := ft.calleeCtx(callee, nil, c, args, st, st)
				for _, txt := range pls {
					pn := txt[len("addr("):strings.Index(txt, ".")]
					own := false
					for k, cp := range callee.Params {
						if cp.Name() == pn && k < len(c.Args) {
							_, own = c.Args[k].(*ssa.Parameter)
						}
					}
					if l, ok := ft.lockExprTerm(cctx, txt); ok {
						ft.oblige("lock-reentry@call", pos, name+": "+txt, guard, eq(app("select", ft.get(st, heldKey(ft)), l), "0"), own && ft.lockDiscipline())
					}
				}
			}
		}
	}
	if ft.con != nil && ft.con.CallPre != nil {
		if cls := ft.con.CallPre[name]; len(cls) > 0 {
			ctx := ft.specCtx(st, ft.entry)
			if ft.curBlk != nil {
				ctx.local = ft.localResolver(ft.curBlk, false, nil, nil, ctx.local)
			}
			if callee == nil && !c.IsInvoke() {
				ctx.vars["self"] = SpecVal{T: ft.val(c.Value), Typ: c.Value.Type(), Sort: "Int"}
			}
			for i, a := range args {
				var at types.Type
				if c.IsInvoke() || (sig.Recv() != nil) {
					if i == 0 {
						at = c.Value.Type()
						if sig.Recv() != nil && !c.IsInvoke() {
							at = sig.Recv().Type()
						}
					} else {
						at = sig.Params().At(i - 1).Type()
					}
				} else if i < sig.Params().Len() {
					at = sig.Params().At(i).Type()
				}
				if at != nil {
					ctx.vars[fmt.Sprintf("arg%d", i)] = SpecVal{T: a, Typ: at, Sort: ft.d.sortOf(at)}
				}
			}
			for _, cl := range cls {
				t, err := ctx.boolExpr(cl.Expr)
				if err != nil {
					if cl.WhereDefined && strings.Contains(err.Error(), "unknown identifier") {
						cl.skipped = err.Error()
						continue
					}
					ft.errf("callpre %s %q: %v", name, cl.Text, err)
					continue
				}
				cl.sites++
				ft.oblige("pre@call", pos, fmt.Sprintf("%s: %s", name, cl.Text), guard, t, true)
			}
		}
	}
	if m := ft.eng.models[name]; m != nil {
		return m.apply(ft, st, guard, c, args, pos)
	}
	results := func(stPost *State) []Term {
		var rs []Term
		for i := 0; i < sig.Results().Len(); i++ {
			rt := sig.Results().At(i).Type()
			r := ft.fresh("call", ft.d.sortOf(rt))
			ft.assume("true", ft.typeInv(r, rt, stPost))
			rs = append(rs, r)
		}
		return rs
	}
	if callee == nil && !c.IsInvoke() {
		if pc := ft.paramContract(c.Value); pc != nil {
			return ft.paramCall(st, guard, pc, c, args, pos)
		}
	}
	if con := ft.eng.cons.Funcs[name]; con != nil {
		con.Used = true
		if strings.HasPrefix(name, "dyn(") {
			ft.dynSelf = &SpecVal{T: ft.val(c.Value), Typ: c.Value.Type(), Sort: "Int"}
			defer func() { ft.dynSelf = nil }()
		}
		return ft.contractCall(st, guard, con, name, callee, closure, c, args, pos)
	}
	if callee != nil && callee.Blocks == nil && purePkgs[calleePkgPath(callee)] && !isImpure(name) {
		// heap-pure library function: deterministic function of scalar arguments
		ft.note("library call treated as heap-pure: " + name)
		scalar := true
		var sorts []Sort
		params := sig.Params()
		for i, a := range args {
			var at types.Type
			if sig.Recv() != nil {
				if i == 0 {
					at = sig.Recv().Type()
				} else {
					at = params.At(i - 1).Type()
				}
			} else {
				at = params.At(i).Type()
			}
			s := ft.d.sortOf(at)
			_ = a
			if s != "Int" && s != "Bool" && s != "Str" && s != "F64" {
				scalar = false
			}
			if _, isPtr := at.Underlying().(*types.Pointer); isPtr && !immutablePointee(at) {
				scalar = false
			}
			sorts = append(sorts, s)
		}
		if nondeterministic[name] {
			scalar = false
		}
		nx := ft.get(st, "$next")
		nn := ft.freshVersion(st, "$next")
		ft.assume("true", app("<=", nx, nn))
		if scalar && len(args) > 0 {
			var rs []Term
			for i := 0; i < sig.Results().Len(); i++ {
				rt := sig.Results().At(i).Type()
				fname := fmt.Sprintf("uf!%s#%d", name, i)
				ft.d.fun(fname, sorts, ft.d.sortOf(rt))
				r := app(q(fname), args...)
				if sl, ok := rt.Underlying().(*types.Slice); ok {
					lenf, rowf := ft.functionalUFs(name, sorts, sl.Elem())
					base := ft.allocRef(st)
					k := ft.elemKey(sl.Elem())
					ft.set(st, k, app("store", ft.get(st, k), base, app(rowf, args...)))
					ln := app(lenf, args...)
					ft.assume("true", and(app("<=", "0", ln), app("<=", ln, "1152921504606846976")))
					rs = append(rs, ft.nameTerm("call", "Slice", app("mk-slice", base, "0", ln, ln)))
					continue
				}
				rn := ft.fresh("call", ft.d.sortOf(rt))
				ft.asserts = append(ft.asserts, "(assert "+eq(rn, r)+")")
				ft.assume("true", ft.typeInv(rn, rt, st))
				rs = append(rs, rn)
			}
			return rs
		}
		return results(st)
	}
	if callee != nil && callee.Blocks != nil {
		ks, all := ft.calleeWrites(callee, map[*ssa.Function]bool{})
		if !all {
			ft.note("call without contract (written keys havocked, results unconstrained): " + name)
			nx := ft.get(st, "$next")
			for _, k := range sortedKeys(ks) {
				if ft.heaps[k] != nil {
					ft.freshVersion(st, k)
				}
			}
			ft.assume("true", app("<=", nx, ft.get(st, "$next")))
			return results(st)
		}
	}
	if c.IsInvoke() && ft.inertInterface(c.Value.Type()) {
		ft.note("method call through an interface declared inert: " + name)
		nx := ft.get(st, "$next")
		ft.assume("true", app("<=", nx, ft.freshVersion(st, "$next")))
		return results(st)
	}
	if c.IsInvoke() {
		if n, ok := types.Unalias(c.Value.Type()).(*types.Named); ok && n.Obj().Pkg() != nil && isStdPath(n.Obj().Pkg().Path()) {
			ft.note("method call on library interface treated as not modifying contract-visible memory: " + name)
			nx := ft.get(st, "$next")
			ft.assume("true", app("<=", nx, ft.freshVersion(st, "$next")))
			return results(st)
		}
		if isErrorType(c.Value.Type()) {
			nx := ft.get(st, "$next")
			ft.assume("true", app("<=", nx, ft.freshVersion(st, "$next")))
			return results(st)
		}
	}
	if ft.con != nil && ft.con.HasDynMod && ((callee == nil && !c.IsInvoke()) || ft.con.UnknownLikeDyn) {
		ctx := ft.specCtx(st, ft.entry)
		targets, all, err := ft.modTargets(ctx, ft.con.DynMod)
		if err != nil {
			ft.errf("dyncall: %v", err)
		}
		if !all {
			ft.note("dynamic calls assumed to modify only the declared dyncall frame")
			ft.applyFrame(st, targets, map[string]bool{})
			return results(st)
		}
	}
	if name == "" {
		name = "dynamic call " + c.Value.Name()
	}
	ft.note("call without contract (havoc all): " + name)
	ft.havocAll(st)
	return results(st)
}

var nondeterministic = map[string]bool{"time.Now": true, "time.Since": true, "os.Getenv": false, "rand.Intn": true, "rand.Int": true, "rand.Float64": true, "os.Stat": true, "os.Open": true, "os.ReadFile": true, "os.ReadDir": true, "filepath.EvalSymlinks": true, "filepath.Abs": true, "os.Lstat": true}

// calleeCtx builds the spec context for evaluating a callee's contract at a call site.
func (ft *FT) calleeCtx(callee *ssa.Function, closure *ssa.MakeClosure, c *ssa.CallCommon, args []Term, st, old *State) *SpecCtx {
	sig := c.Signature()
	vars := map[string]SpecVal{}
	var pkg *types.Package
	if callee != nil {
		if callee.Pkg != nil {
			pkg = callee.Pkg.Pkg
		} else if o := callee.Object(); o != nil {
			pkg = o.Pkg()
		}
		if pkg == nil && callee.Parent() != nil && callee.Parent().Pkg != nil {
			pkg = callee.Parent().Pkg.Pkg
		}
	} else if c.IsInvoke() && c.Method.Pkg() != nil {
		pkg = c.Method.Pkg()
	}
	i := 0
	if callee != nil && callee.Signature.Recv() != nil {
		rv := callee.Signature.Recv()
		vars[rv.Name()] = SpecVal{T: args[0], Typ: rv.Type(), Sort: ft.d.sortOf(rv.Type())}
		vars["self"] = vars[rv.Name()]
		i = 1
	} else if c.IsInvoke() {
		vars["self"] = SpecVal{T: args[0], Typ: c.Value.Type(), Sort: "Iface"}
		i = 1
	}
	ps := sig.Params()
	if callee != nil {
		ps = callee.Signature.Params()
	}
	for k := 0; k < ps.Len() && i+k < len(args); k++ {
		p := ps.At(k)
		n := p.Name()
		if n == "" || n == "_" {
			n = fmt.Sprintf("arg%d", k)
		}
		vars[n] = SpecVal{T: args[i+k], Typ: p.Type(), Sort: ft.d.sortOf(p.Type())}
		vars[fmt.Sprintf("arg%d", k)] = vars[n]
		// pointee(argK): the object behind a pointer that this call site passes as an interface value
		// (json.Unmarshal(data, &v) and the like); known only where the argument is a boxed pointer
		ai := k // index of this parameter in c.Args: a static method call carries its receiver as c.Args[0]
		if !c.IsInvoke() && sig.Recv() != nil {
			ai = k + 1
		}
		if ai < len(c.Args) {
			if mi, ok := c.Args[ai].(*ssa.MakeInterface); ok {
				if _, isPtr := mi.X.Type().Underlying().(*types.Pointer); isPtr && ft.env[mi.X] != nil {
					pv := SpecVal{T: ft.val(mi.X), Typ: mi.X.Type(), Sort: ft.d.sortOf(mi.X.Type())}
					vars["pointee!"+n] = pv
					vars[fmt.Sprintf("pointee!arg%d", k)] = pv
				}
			}
		}
	}
	if ft.dynSelf != nil && callee == nil && !c.IsInvoke() {
		vars["self"] = *ft.dynSelf
		if n, ok := types.Unalias(c.Value.Type()).(*types.Named); ok && n.Obj().Pkg() != nil {
			pkg = n.Obj().Pkg()
		}
	}
	ctx := &SpecCtx{ft: ft, pkg: pkg, st: st, old: old, vars: vars}
	if closure != nil {
		ctx.local = func(cc *SpecCtx, name string) (SpecVal, bool, error) {
			for k, fv := range callee.FreeVars {
				if fv.Name() == name {
					b := closure.Bindings[k]
					return ft.derefFree(cc, ft.val(b), fv.Type(), b), true, nil
				}
			}
			return SpecVal{}, false, nil
		}
	}
	return ctx
}

// derefFree reads the captured variable designated by a free-variable pointer.
func (ft *FT) derefFree(cc *SpecCtx, ptr Term, ptrType types.Type, binding ssa.Value) SpecVal {
	elem := deref(ptrType)
	if binding != nil {
		if l, ok := ft.locs[binding]; ok {
			return cc.mk(ft.load(cc.st, l), elem)
		}
	}
	if _, ok := elem.Underlying().(*types.Struct); ok && !isOpaqueInt(elem) {
		return cc.mk(ft.load(cc.st, &Loc{typ: elem, obj: ptr}), elem)
	}
	return cc.mk(ft.load(cc.st, &Loc{key: ft.cellKey(elem), idx: []Term{ptr}, typ: elem}), elem)
}

type modTarget struct {
	key string
	obj Term // "" = whole key
}

// modTargets evaluates modifies clauses in ctx.
func (ft *FT) modTargets(ctx *SpecCtx, clauses []*Clause) ([]modTarget, bool, error) {
	var out []modTarget
	for _, cl := range clauses {
		ts, all, err := ft.modTarget(ctx, cl)
		if err != nil {
			return nil, false, fmt.Errorf("modifies %q: %v", cl.Text, err)
		}
		if all {
			return nil, true, nil
		}
		out = append(out, ts...)
	}
	return out, false, nil
}

func (ft *FT) modTarget(ctx *SpecCtx, cl *Clause) (ts []modTarget, all bool, err error) {
	defer func() {
		if r := recover(); r != nil {
			err = fmt.Errorf("%v", r)
		}
	}()
	e := cl.Expr
	if id, ok := e.(*ast.Ident); ok && id.Name == "everything" {
		return nil, true, nil
	}
	if ce, ok := e.(*ast.CallExpr); ok {
		if fid, ok := ce.Fun.(*ast.Ident); ok {
			switch fid.Name {
			case "mapof":
				v := ctx.tr(ce.Args[0])
				mt, ok := v.Typ.Underlying().(*types.Map)
				if !ok {
					return nil, false, fmt.Errorf("mapof() of non-map")
				}
				for _, k := range ft.mapKeys(mt) {
					ts = append(ts, modTarget{k, v.T})
				}
				return ts, false, nil
			case "elems":
				v := ctx.tr(ce.Args[0])
				sl, ok := v.Typ.Underlying().(*types.Slice)
				if !ok {
					return nil, false, fmt.Errorf("elems() of non-slice")
				}
				return []modTarget{{ft.elemKey(sl.Elem()), app("sl-base", v.T)}}, false, nil
			case "allmaps":
				t := ctx.resolveType(ce.Args[0])
				mt, ok := t.Underlying().(*types.Map)
				if !ok {
					return nil, false, fmt.Errorf("allmaps() of non-map type")
				}
				for _, k := range ft.mapKeys(mt) {
					ts = append(ts, modTarget{k, ""})
				}
				return ts, false, nil
			case "allelems":
				t := ctx.resolveType(ce.Args[0])
				return []modTarget{{ft.elemKey(t), ""}}, false, nil
			case "allfields":
				// allfields(T.f)
				se := ce.Args[0].(*ast.SelectorExpr)
				t := ctx.resolveType(se.X)
				stt := t.Underlying().(*types.Struct)
				for i := 0; i < stt.NumFields(); i++ {
					if stt.Field(i).Name() == se.Sel.Name {
						k := fieldKey(t, stt.Field(i))
						ft.keySort(k, arraySort("Int", ft.d.sortOf(stt.Field(i).Type())))
						return []modTarget{{k, ""}}, false, nil
					}
				}
				return nil, false, fmt.Errorf("no field")
			case "global":
				v := ce.Args[0].(*ast.Ident)
				o := ctx.pkg.Scope().Lookup(v.Name)
				if o == nil {
					return nil, false, fmt.Errorf("no global %s", v.Name)
				}
				k := "V!" + o.Pkg().Name() + "." + o.Name()
				ft.keySort(k, ft.d.sortOf(o.Type()))
				return []modTarget{{k, ""}}, false, nil
			case "pointee":
				v, ok := ce.Args[0].(*ast.Ident)
				if !ok {
					return nil, false, fmt.Errorf("pointee() takes a parameter name")
				}
				pv, ok := ctx.vars["pointee!"+v.Name]
				if !ok {
					// not a boxed pointer at this call site: nothing is known about what is written
					return nil, true, nil
				}
				elem := deref(pv.Typ)
				if stt, ok := elem.Underlying().(*types.Struct); ok && !isOpaqueInt(elem) {
					for i := 0; i < stt.NumFields(); i++ {
						k := fieldKey(elem, stt.Field(i))
						ft.keySort(k, arraySort("Int", ft.d.sortOf(stt.Field(i).Type())))
						ts = append(ts, modTarget{k, pv.T})
					}
					return ts, false, nil
				}
				return []modTarget{{ft.cellKey(elem), pv.T}}, false, nil
			case "ghost":
				v := ce.Args[0].(*ast.Ident)
				sf, ptypes, rtype := ctx.ghostByName(v.Name)
				if sf == nil {
					return nil, false, fmt.Errorf("unknown ghost %s", v.Name)
				}
				k, _ := ft.ghostKey(sf, ptypes, rtype)
				return []modTarget{{k, ""}}, false, nil
			}
			if sf, ptypes, rtype := ctx.ghostByName(fid.Name); sf != nil {
				// ghostname(obj): the ghost state of that object
				k, _ := ft.ghostKey(sf, ptypes, rtype)
				v := ctx.tr(ce.Args[0])
				return []modTarget{{k, v.T}}, false, nil
			}
		}
	}
	switch x := e.(type) {
	case *ast.SelectorExpr:
		b := ctx.tr(x.X)
		pt, ok := b.Typ.Underlying().(*types.Pointer)
		if !ok {
			return nil, false, fmt.Errorf("modifies x.f needs pointer base")
		}
		stt, ok := pt.Elem().Underlying().(*types.Struct)
		if !ok {
			return nil, false, fmt.Errorf("modifies x.f needs struct")
		}
		for i := 0; i < stt.NumFields(); i++ {
			if stt.Field(i).Name() == x.Sel.Name {
				k := fieldKey(pt.Elem(), stt.Field(i))
				ft.keySort(k, arraySort("Int", ft.d.sortOf(stt.Field(i).Type())))
				return []modTarget{{k, b.T}}, false, nil
			}
		}
		return nil, false, fmt.Errorf("no field %s", x.Sel.Name)
	case *ast.StarExpr:
		b := ctx.tr(x.X)
		elem := deref(b.Typ)
		if stt, ok := elem.Underlying().(*types.Struct); ok && !isOpaqueInt(elem) {
			for i := 0; i < stt.NumFields(); i++ {
				k := fieldKey(elem, stt.Field(i))
				ft.keySort(k, arraySort("Int", ft.d.sortOf(stt.Field(i).Type())))
				ts = append(ts, modTarget{k, b.T})
			}
			return ts, false, nil
		}
		return []modTarget{{ft.cellKey(elem), b.T}}, false, nil
	}
	return nil, false, fmt.Errorf("unsupported modifies target")
}

// applyFrame havocs keys for a call with a modifies clause; unlisted keys the callee writes change only at fresh objects.
func (ft *FT) applyFrame(st *State, targets []modTarget, written map[string]bool) {
	nextOld := ft.get(st, "$next")
	byKey := map[string][]Term{}
	whole := map[string]bool{}
	for _, t := range targets {
		if t.obj == "" {
			whole[t.key] = true
		} else {
			byKey[t.key] = append(byKey[t.key], t.obj)
		}
		written[t.key] = true
	}
	written["$next"] = true
	for _, k := range sortedKeys(written) {
		hi := ft.heaps[k]
		if hi == nil {
			continue
		}
		if k == "$next" {
			continue
		}
		old := ft.get(st, k)
		nv := ft.freshVersion(st, k)
		if whole[k] {
			continue
		}
		if !strings.HasPrefix(hi.sort, "(Array Int ") {
			if len(byKey[k]) == 0 {
				// scalar key not declared: callee must not change it
				st.m[k] = old
			}
			continue
		}
		conds := []Term{app("<", "r", nextOld)}
		for _, o := range byKey[k] {
			conds = append(conds, not(eq("r", o)))
		}
		ft.assume("true", forall([][2]string{{"r", "Int"}}, "(! "+implies(and(conds...), eq(app("select", nv, "r"), app("select", old, "r")))+" :pattern ((select "+nv+" r)))"))
	}
	nn := ft.freshVersion(st, "$next")
	ft.assume("true", app("<=", nextOld, nn))
}

func (ft *FT) contractCall(st *State, guard Term, con *FuncContract, name string, callee *ssa.Function, closure *ssa.MakeClosure, c *ssa.CallCommon, args []Term, pos token.Pos) []Term {
	sig := c.Signature()
	pre := st.clone()
	ctx := ft.calleeCtx(callee, closure, c, args, pre, pre)
	for _, r := range con.Requires {
		t, err := ctx.boolExpr(r.Expr)
		if err != nil {
			ft.errf("call %s: requires %q: %v", name, r.Text, err)
			continue
		}
		ft.oblige("pre@call", pos, fmt.Sprintf("%s: %s", name, r.Text), guard, t, true)
	}
	// direct recursion: the declared variant strictly decreases at every self call and stays non-negative
	if callee != nil && callee == ft.fn && con.RecDecreases != nil {
		ectx := ft.specCtx(ft.entry, ft.entry)
		here, err1 := ctx.expr(con.RecDecreases.Expr)
		entry, err2 := ectx.expr(con.RecDecreases.Expr)
		if err1 != nil || err2 != nil {
			ft.errf("recdecreases %q: %v %v", con.RecDecreases.Text, err1, err2)
		} else {
			ft.oblige("decreases@call", pos, fmt.Sprintf("%s: %s", name, con.RecDecreases.Text), guard, and(app("<=", "0", here.T), app("<", here.T, entry.T)), true)
		}
	}
	// frame
	if !con.HasMod {
		var ks map[string]bool
		all := true
		if callee != nil && callee.Blocks != nil {
			ks, all = ft.calleeWrites(callee, map[*ssa.Function]bool{})
		}
		if all {
			ft.note("callee contract without modifies (havoc all): " + name)
			ft.havocAll(st)
		} else {
			nx := ft.get(st, "$next")
			for _, k := range sortedKeys(ks) {
				if ft.heaps[k] != nil {
					ft.freshVersion(st, k)
				}
			}
			ft.assume("true", app("<=", nx, ft.get(st, "$next")))
		}
	} else {
		targets, all, err := ft.modTargets(ctx, con.Modifies)
		if err != nil {
			ft.errf("call %s: %v", name, err)
		}
		if all {
			ft.havocAll(st)
		} else {
			written := map[string]bool{}
			if callee != nil && callee.Blocks != nil && !con.Trusted {
				ks, wall := ft.calleeWrites(callee, map[*ssa.Function]bool{})
				if wall {
					// the callee's own check proves the frame; a callee that havocs everything cannot have a modifies clause
					ft.note("callee with modifies clause calls unknown code; frame trusted to the callee's own check: " + name)
				}
				for k := range ks {
					written[k] = true
				}
			}
			ft.applyFrame(st, targets, written)
		}
	}
	if closure != nil && callee != nil {
		// captured locals kept in private cells: a closure that assigns its free variable changes them
		for k, fv := range callee.FreeVars {
			if k >= len(closure.Bindings) {
				break
			}
			al, ok := closure.Bindings[k].(*ssa.Alloc)
			if !ok || !ft.privateAlloc(al) {
				continue
			}
			if storesTo(callee, fv) {
				ft.freshVersion(st, ft.privKey(al))
			}
		}
	}
	var rs []Term
	post := ft.calleeCtx(callee, closure, c, args, st, pre)
	for i := 0; i < sig.Results().Len(); i++ {
		rt := sig.Results().At(i).Type()
		r := ft.fresh("call", ft.d.sortOf(rt))
		ft.assume("true", ft.typeInv(r, rt, st))
		rs = append(rs, r)
		sv := SpecVal{T: r, Typ: rt, Sort: ft.d.sortOf(rt)}
		post.vars[fmt.Sprintf("result%d", i)] = sv
		if i == 0 {
			post.vars["result"] = sv
		}
		if n := sig.Results().At(i).Name(); n != "" && n != "_" {
			post.vars[n] = sv
		}
		if i == sig.Results().Len()-1 && isErrorType(rt) {
			if _, dup := post.vars["err"]; !dup {
				post.vars["err"] = sv
			}
		}
	}
	if con.Functional {
		ft.functionalFacts(st, name, sig, args, rs)
	}
	if con.MayPanic {
		// the callee either returns (ensures) or exits by panic (ensures_on_panic); $panicking says which
		ft.keySort("$panicking", "Bool")
		pan := ft.fresh("repanics", "Bool")
		ft.set(st, "$panicking", pan)
		post.st = st
		var en, ep []Term
		for _, e := range con.Ensures {
			t, err := post.boolExpr(e.Expr)
			if err != nil {
				ft.errf("call %s: ensures %q: %v", name, e.Text, err)
				continue
			}
			en = append(en, t)
		}
		for _, e := range con.EnsuresP {
			t, err := post.boolExpr(e.Expr)
			if err != nil {
				ft.errf("call %s: ensures_on_panic %q: %v", name, e.Text, err)
				continue
			}
			ep = append(ep, t)
		}
		ft.assume(guard, ite(pan, and(ep...), and(en...)))
		return rs
	}
	for _, e := range con.Ensures {
		t, err := post.boolExpr(e.Expr)
		if err != nil {
			ft.errf("call %s: ensures %q: %v", name, e.Text, err)
			continue
		}
		ft.assume(guard, t)
	}
	return rs
}

// functionalFacts: the results of a deterministic function of scalar arguments are named by uninterpreted functions.
func (ft *FT) functionalFacts(st *State, name string, sig *types.Signature, args []Term, rs []Term) {
	var sorts []Sort
	ps := sig.Params()
	for i := 0; i < ps.Len(); i++ {
		s := ft.d.sortOf(ps.At(i).Type())
		if s != "Int" && s != "Bool" && s != "Str" && s != "F64" {
			ft.errf("functional %s: non-scalar parameter", name)
			return
		}
		sorts = append(sorts, s)
	}
	if sig.Recv() != nil {
		ft.errf("functional %s: methods not supported", name)
		return
	}
	for i, r := range rs {
		rt := sig.Results().At(i).Type()
		if sl, ok := rt.Underlying().(*types.Slice); ok {
			lenf, rowf := ft.functionalUFs(name, sorts, sl.Elem())
			k := ft.elemKey(sl.Elem())
			ft.assume("true", eq(app("sl-len", r), app(lenf, args...)))
			row := app(rowf, args...)
			ft.assume("true", forall([][2]string{{"i", "Int"}}, "(! "+implies(and(app("<=", "0", "i"), app("<", "i", app("sl-len", r))),
				eq(app(ft.atFun(k), ft.get(st, k), r, "i"), app("select", row, "i")))+" :pattern ((select "+row+" i)) :pattern ("+app(ft.atFun(k), ft.get(st, k), r, "i")+"))"))
			continue
		}
		s := ft.d.sortOf(rt)
		if s != "Int" && s != "Bool" && s != "Str" && s != "F64" {
			continue
		}
		fname := fmt.Sprintf("uf!%s#%d", name, i)
		if len(sorts) == 0 {
			ft.d.cnst(fname, s)
		} else {
			ft.d.fun(fname, sorts, s)
		}
		ft.assume("true", eq(r, app(q(fname), args...)))
	}
}

func isErrorType(t types.Type) bool {
	n, ok := t.(*types.Named)
	return ok && n.Obj().Pkg() == nil && n.Obj().Name() == "error"
}

func (ft *FT) paramCall(st *State, guard Term, pc *ParamContract, c *ssa.CallCommon, args []Term, pos token.Pos) []Term {
	sig := c.Signature()
	pre := st.clone()
	vars := map[string]SpecVal{}
	for k := 0; k < sig.Params().Len() && k < len(args); k++ {
		p := sig.Params().At(k)
		sv := SpecVal{T: args[k], Typ: p.Type(), Sort: ft.d.sortOf(p.Type())}
		vars[fmt.Sprintf("arg%d", k)] = sv
		if p.Name() != "" && p.Name() != "_" {
			vars[p.Name()] = sv
		}
	}
	base := ft.specCtx(pre, pre)
	ctx := base.with(vars)
	for _, r := range pc.Requires {
		t, err := ctx.boolExpr(r.Expr)
		if err != nil {
			ft.errf("param call: requires %q: %v", r.Text, err)
			continue
		}
		ft.oblige("pre@call", pos, "param: "+r.Text, guard, t, true)
	}
	if !pc.HasMod {
		ft.havocAll(st)
	} else {
		targets, all, err := ft.modTargets(ctx, pc.Modifies)
		if err != nil {
			ft.errf("param call: %v", err)
		}
		if all {
			ft.havocAll(st)
		} else {
			ft.applyFrame(st, targets, map[string]bool{})
		}
	}
	var rs []Term
	post := ft.specCtx(st, pre).with(vars)
	for i := 0; i < sig.Results().Len(); i++ {
		rt := sig.Results().At(i).Type()
		r := ft.fresh("call", ft.d.sortOf(rt))
		ft.assume("true", ft.typeInv(r, rt, st))
		rs = append(rs, r)
		sv := SpecVal{T: r, Typ: rt, Sort: ft.d.sortOf(rt)}
		post.vars[fmt.Sprintf("result%d", i)] = sv
		if i == 0 {
			post.vars["result"] = sv
		}
	}
	for _, e := range pc.Ensures {
		t, err := post.boolExpr(e.Expr)
		if err != nil {
			ft.errf("param call: ensures %q: %v", e.Text, err)
			continue
		}
		ft.assume(guard, t)
	}
	if pc.MayPanic && !ft.unwinding {
		// the callee may panic instead of returning: unwind through the deferred calls on a copy of the state
		pv := ft.fresh("panics", "Bool")
		ft.panicUnwind(st.clone(), and(guard, pv), pos)
		ft.curGuard = and(guard, not(pv))
	}
	return rs
}

// panicUnwind: a panic propagates out of the function: deferred calls run with $panicking set, then the
// panic exit is checked against ensures_on_panic (if some deferred call recovered, nothing more is checked).
func (ft *FT) panicUnwind(st *State, guard Term, pos token.Pos) {
	ft.keySort("$panicking", "Bool")
	ft.set(st, "$panicking", "true")
	ft.unwinding = true
	ft.runDefers(st, guard, pos)
	ft.unwinding = false
	still := ft.get(st, "$panicking")
	ft.exitObligations(pos, st, and(guard, still), nil, true)
	ft.note("a panic recovered by a deferred call turns into a normal return whose results are not checked")
}

func (ft *FT) builtin(st *State, guard Term, b *ssa.Builtin, c *ssa.CallCommon, preArgs []Term, pos token.Pos) []Term {
	var args []Term
	if preArgs != nil {
		args = preArgs
	} else {
		for _, a := range c.Args {
			args = append(args, ft.val(a))
		}
	}
	switch b.Name() {
	case "len":
		switch t := c.Args[0].Type().Underlying().(type) {
		case *types.Basic:
			return []Term{app("slen", args[0])}
		case *types.Slice:
			return []Term{app("sl-len", args[0])}
		case *types.Map:
			ft.guardedMap(c.Args[0], false, pos, guard)
			r := ft.fresh("len", "Int")
			ft.asserts = append(ft.asserts, "(assert "+eq(r, ft.mapLen(st, args[0], t))+")")
			ft.assume("true", app("<=", "0", r))
			return []Term{r}
		case *types.Array:
			return []Term{num(t.Len())}
		case *types.Pointer:
			return []Term{num(t.Elem().Underlying().(*types.Array).Len())}
		case *types.Chan:
			r := ft.fresh("len", "Int")
			ft.assume("true", app("<=", "0", r))
			return []Term{r}
		}
	case "cap":
		switch t := c.Args[0].Type().Underlying().(type) {
		case *types.Slice:
			return []Term{app("sl-cap", args[0])}
		case *types.Array:
			return []Term{num(t.Len())}
		case *types.Chan:
			r := ft.fresh("cap", "Int")
			ft.assume("true", app("<=", "0", r))
			return []Term{r}
		}
	case "append":
		return []Term{ft.appendOp(st, guard, c, args, pos)}
	case "delete":
		mt := c.Args[0].Type().Underlying().(*types.Map)
		ft.guardedMap(c.Args[0], true, pos, guard)
		ft.mapDelete(st, guard, args[0], mt, args[1])
		return nil
	case "copy":
		sl := c.Args[0].Type().Underlying().(*types.Slice)
		k := ft.elemKey(sl.Elem())
		es := ft.d.sortOf(sl.Elem())
		E := ft.get(st, k)
		dst := args[0]
		r := ft.fresh("copy", "Int")
		if _, srcIsSlice := c.Args[1].Type().Underlying().(*types.Slice); srcIsSlice {
			src := args[1]
			ft.assume("true", eq(r, ite(app("<=", app("sl-len", dst), app("sl-len", src)), app("sl-len", dst), app("sl-len", src))))
			row := ft.fresh("copyrow", arraySort("Int", es))
			old := sel(E, app("sl-base", dst))
			// only dst[0:n) changes, and it receives src[0:n) (as it was before the copy)
			ft.assume("true", forall([][2]string{{"i", "Int"}}, "(! "+eq(app("select", row, "i"),
				ite(and(app("<=", app("sl-off", dst), "i"), app("<", "i", app("+", app("sl-off", dst), r))),
					sel(E, app("sl-base", src), app("+", app("sl-off", src), app("-", "i", app("sl-off", dst)))),
					app("select", old, "i")))+" :pattern ((select "+row+" i)))"))
			ft.set(st, k, app("store", E, app("sl-base", dst), row))
			return []Term{r}
		}
		// copy(bytes, string): destination row unconstrained inside the slice, unchanged outside
		row := ft.fresh("copyrow", arraySort("Int", es))
		old := sel(E, app("sl-base", dst))
		ft.assume("true", and(app("<=", "0", r), app("<=", r, app("sl-len", dst))))
		ft.assume("true", forall([][2]string{{"i", "Int"}}, "(! "+implies(or(app("<", "i", app("sl-off", dst)), app(">=", "i", app("+", app("sl-off", dst), r))), eq(app("select", row, "i"), app("select", old, "i")))+" :pattern ((select "+row+" i)))"))
		ft.set(st, k, app("store", E, app("sl-base", dst), row))
		return []Term{r}
	case "close":
		ft.keySort("CLOSED", arraySort("Int", "Bool"))
		cl := ft.get(st, "CLOSED")
		ft.oblige("chan-closed", pos, "", guard, and(not(eq(args[0], "0")), not(app("select", cl, args[0]))), ft.con != nil && (ft.con.Strict || ft.con.CloseOnce))
		ft.set(st, "CLOSED", app("store", cl, args[0], "true"))
		return nil
	case "recover":
		// recover() is non-nil exactly when the function runs as a deferred call of a panicking goroutine, and stops the panic
		ft.keySort("$panicking", "Bool")
		was := ft.get(st, "$panicking")
		r := ft.fresh("recover", "Iface")
		ft.assume("true", eq(not(eq(app("dyn", r), "0")), was))
		ft.set(st, "$panicking", "false")
		return []Term{r}
	case "print", "println":
		return nil
	case "min", "max":
		if len(args) == 2 && ft.d.sortOf(c.Args[0].Type()) == "Int" {
			if b.Name() == "min" {
				return []Term{ite(app("<=", args[0], args[1]), args[0], args[1])}
			}
			return []Term{ite(app(">=", args[0], args[1]), args[0], args[1])}
		}
	}
	ft.errf("unsupported builtin %s", b.Name())
	var rs []Term
	sig := c.Signature()
	for i := 0; i < sig.Results().Len(); i++ {
		rs = append(rs, ft.fresh("bi", ft.d.sortOf(sig.Results().At(i).Type())))
	}
	return rs
}

// appendOp models append(s, t...).
func (ft *FT) appendOp(st *State, guard Term, c *ssa.CallCommon, args []Term, pos token.Pos) Term {
	s := args[0]
	sl := c.Args[0].Type().Underlying().(*types.Slice)
	k := ft.elemKey(sl.Elem())
	es := ft.d.sortOf(sl.Elem())
	if isString(c.Args[1].Type()) {
		// append([]byte, string...)
		t := args[1]
		r := ft.allocRef(st)
		n := app("+", app("sl-len", s), app("slen", t))
		arr := ft.fresh("apparr", arraySort("Int", es))
		E := ft.get(st, k)
		ft.assume("true", forall([][2]string{{"i", "Int"}}, and(
			implies(and(app("<=", "0", "i"), app("<", "i", app("sl-len", s))), eq(app("select", arr, "i"), sel(E, app("sl-base", s), app("+", app("sl-off", s), "i")))),
			implies(and(app("<=", app("sl-len", s), "i"), app("<", "i", n)), eq(app("select", arr, "i"), app("sat", t, app("-", "i", app("sl-len", s))))))))
		ft.set(st, k, app("store", E, r, arr))
		cp := ft.fresh("appcap", "Int")
		ft.assume("true", app("<=", n, cp))
		return ft.nameTerm("app", "Slice", app("mk-slice", r, "0", n, cp))
	}
	t := args[1]
	// constant-length tail built from a fresh array (the variadic packaging)
	tlen := app("sl-len", t)
	constLen := -1
	if so, ok := c.Args[1].(*ssa.Slice); ok {
		if al, ok := so.X.(*ssa.Alloc); ok && so.Low == nil && so.High == nil {
			if at, ok := deref(al.Type()).Underlying().(*types.Array); ok && at.Len() <= 4 {
				constLen = int(at.Len())
			}
		}
	}
	E := ft.get(st, k)
	at := ft.atFun(k)
	newLen := app("+", app("sl-len", s), tlen)
	fits := app("<=", newLen, app("sl-cap", s))
	// in-place variant
	var inplace Term
	if constLen >= 0 {
		row := sel(E, app("sl-base", s))
		for j := 0; j < constLen; j++ {
			row = app("store", row, app("+", app("sl-off", s), app("sl-len", s), num(int64(j))), sel(E, app("sl-base", t), app("+", app("sl-off", t), num(int64(j)))))
		}
		inplace = app("store", E, app("sl-base", s), row)
	} else {
		rowN := ft.fresh("approw", arraySort("Int", es))
		ft.assume("true", forall([][2]string{{"i", "Int"}}, eq(app("select", rowN, "i"),
			ite(and(app("<=", app("+", app("sl-off", s), app("sl-len", s)), "i"), app("<", "i", app("+", app("sl-off", s), newLen))),
				app(at, E, t, app("-", "i", app("+", app("sl-off", s), app("sl-len", s)))),
				sel(E, app("sl-base", s), "i")))))
		inplace = app("store", E, app("sl-base", s), rowN)
	}
	// reallocation variant
	r := ft.allocRef(st)
	arr := ft.fresh("apparr", arraySort("Int", es))
	if constLen >= 0 {
		ft.assume("true", forall([][2]string{{"i", "Int"}}, "(! "+implies(and(app("<=", "0", "i"), app("<", "i", app("sl-len", s))), eq(app("select", arr, "i"), sel(E, app("sl-base", s), app("+", app("sl-off", s), "i"))))+" :pattern ((select "+arr+" i)))"))
		for j := 0; j < constLen; j++ {
			ft.assume("true", eq(app("select", arr, app("+", app("sl-len", s), num(int64(j)))), sel(E, app("sl-base", t), app("+", app("sl-off", t), num(int64(j))))))
		}
	} else {
		ft.assume("true", forall([][2]string{{"i", "Int"}}, "(! "+and(
			implies(and(app("<=", "0", "i"), app("<", "i", app("sl-len", s))), eq(app("select", arr, "i"), app(at, E, s, "i"))),
			implies(and(app("<=", app("sl-len", s), "i"), app("<", "i", newLen)), eq(app("select", arr, "i"), app(at, E, t, app("-", "i", app("sl-len", s))))))+" :pattern ((select "+arr+" i)))"))
	}
	realloc := app("store", E, r, arr)
	cp := ft.fresh("appcap", "Int")
	ft.assume("true", and(app("<=", newLen, cp), app("<=", cp, "1152921504606846976")))
	nE := ft.fresh("appE", ft.heaps[k].sort)
	ft.asserts = append(ft.asserts, "(assert "+eq(nE, ite(fits, inplace, realloc))+")")
	ft.set(st, k, nE)
	res := ite(fits, app("mk-slice", app("sl-base", s), app("sl-off", s), newLen, app("sl-cap", s)), app("mk-slice", r, "0", newLen, cp))
	rn := ft.nameTerm("app", "Slice", res)
	// consequences of the two variants above, stated through at! so that quantified facts about the
	// old slice carry over to the result without unfolding heaps: the old elements keep their
	// places and the appended ones follow (implied by the definitions; given as trigger-friendly hints)
	ft.assume("true", forall([][2]string{{"i", "Int"}}, "(! "+implies(and(app("<=", "0", "i"), app("<", "i", app("sl-len", s))), eq(app(at, nE, rn, "i"), app(at, E, s, "i")))+" :pattern (("+at+" "+nE+" "+rn+" i)))"))
	if constLen >= 0 {
		for j := 0; j < constLen; j++ {
			ft.assume("true", eq(app(at, nE, rn, app("+", app("sl-len", s), num(int64(j)))), app(at, E, t, num(int64(j)))))
		}
	} else {
		ft.assume("true", forall([][2]string{{"i", "Int"}}, "(! "+implies(and(app("<=", app("sl-len", s), "i"), app("<", "i", newLen)), eq(app(at, nE, rn, "i"), app(at, E, t, app("-", "i", app("sl-len", s)))))+" :pattern (("+at+" "+nE+" "+rn+" i)))"))
	}
	return rn
}

func (ft *FT) nameTerm(prefix string, s Sort, t Term) Term {
	n := ft.fresh(prefix, s)
	ft.asserts = append(ft.asserts, "(assert "+eq(n, t)+")")
	return n
}

func (ft *FT) runDefers(st *State, guard Term, pos token.Pos) {
	for i := len(ft.defers) - 1; i >= 0; i-- {
		d := ft.defers[i]
		flag := ft.get(st, d.flagKey)
		if flag == "false" {
			continue
		}
		if flag == "true" {
			ft.call(st, guard, d.common, d.args, d.instr, d.instr.Pos())
			continue
		}
		st2 := st.clone()
		ft.call(st2, and(guard, flag), d.common, d.args, d.instr, d.instr.Pos())
		m := ft.mergeStates([]Term{and(guard, flag), and(guard, not(flag))}, []*State{st2, st}, "defer")
		st.m = m.m
		st.epoch = m.epoch
	}
}

func (ft *FT) goStmt(x *ssa.Go, st *State, guard Term) {
	name, _, _ := ft.callName(&x.Call)
	ft.note("goroutine spawned (body not part of this function's VC): " + name)
}

func (ft *FT) allocBound(pos token.Pos, guard Term, n Term, st *State) {
	ctx := ft.specCtx(st, ft.entry)
	v, err := ctx.expr(ft.con.AllocBound.Expr)
	if err != nil {
		ft.errf("allocbound: %v", err)
		return
	}
	ft.oblige("alloc-bounded", pos, "", guard, app("<=", n, v.T), true)
}

func isStdPath(p string) bool {
	first := p
	if i := strings.Index(p, "/"); i >= 0 {
		first = p[:i]
	}
	return !strings.Contains(first, ".")
}

func isImpure(name string) bool {
	if impureFuncs[name] {
		return true
	}
	if strings.Contains(name, "atomic.") {
		for _, w := range []string{"Store", "Add", "Swap", "And", "Or"} {
			if strings.Contains(name[strings.LastIndex(name, ".")+1:], w) {
				return true
			}
		}
	}
	return false
}

// storesTo: the function (or a closure nested in it) assigns through the given free variable.
func storesTo(fn *ssa.Function, fv *ssa.FreeVar) bool {
	if fv.Referrers() == nil {
		return false
	}
	for _, r := range *fv.Referrers() {
		switch x := r.(type) {
		case *ssa.Store:
			if x.Addr == ssa.Value(fv) {
				return true
			}
		case *ssa.UnOp, *ssa.DebugRef:
		default:
			return true // address escapes further: assume it may be assigned
		}
	}
	return false
}

// immutablePointee: pointer types whose pointee never changes after construction (safe to treat calls on them as functions of the pointer)
func immutablePointee(t types.Type) bool {
	switch types.TypeString(t, nil) {
	case "*regexp.Regexp":
		return true
	}
	return false
}

// inertInterface: the contract files declare (`decl inert T`) that method calls through interface T do not modify
// contract-visible memory (an assumption, listed in the evidence).
func (ft *FT) inertInterface(t types.Type) bool { return ft.declared("inert", t) }

// nonnilInterface: `decl nonnil T` - values of interface type T are assumed never to be the nil interface where a
// method is called through them (an unverified type invariant, listed in the evidence; kinds in contracts still
// treat nil as a value of its own).
func (ft *FT) nonnilInterface(t types.Type) bool { return ft.declared("nonnil", t) }

func (ft *FT) declared(what string, t types.Type) bool {
	n, ok := types.Unalias(t).(*types.Named)
	if !ok || n.Obj().Pkg() == nil {
		return false
	}
	for _, d := range ft.eng.cons.Decls[pkgKey(n.Obj().Pkg())] {
		f := strings.Fields(d)
		if len(f) == 2 && f[0] == what && f[1] == n.Obj().Name() {
			return true
		}
	}
	return false
}
