package main

import (
	"encoding/json"
	"flag"
	"fmt"
	"os"
	"path/filepath"
	"sort"
	"strconv"
	"strings"
	"time"
)

// PropConfig describes how one property is decided.
type PropConfig struct {
	ID          string   `json:"id"`
	Packages    []string `json:"packages"`
	Functions   []string `json:"functions"`
	Structural  []string `json:"structural"`
	Assumptions []string `json:"assumptions"`
	Bounded     []string `json:"bounded"`
	Lemmas      []string `json:"lemmas"`
}

type Finding struct {
	Kind     string // finding | fixed
	Property string
	Obl      string
	Text     string
}

func loadProps() (map[string]*PropConfig, error) {
	b, err := os.ReadFile(filepath.Join(verifRoot(), "props.json"))
	if err != nil {
		return nil, err
	}
	var ps []*PropConfig
	if err := json.Unmarshal(b, &ps); err != nil {
		return nil, err
	}
	m := map[string]*PropConfig{}
	for _, p := range ps {
		m[p.ID] = p
	}
	return m, nil
}

// known_findings.txt lines:  finding: property=C20 obligation=<name> :: <what fails>
//
//	fixed: property=C20 <commit> <what failed>
func loadFindings() []Finding {
	b, err := os.ReadFile(filepath.Join(verifRoot(), "known_findings.txt"))
	if err != nil {
		return nil
	}
	var out []Finding
	for _, l := range strings.Split(string(b), "\n") {
		l = strings.TrimSpace(l)
		if l == "" || strings.HasPrefix(l, "#") {
			continue
		}
		if strings.HasPrefix(l, "finding:") {
			rest := strings.TrimSpace(strings.TrimPrefix(l, "finding:"))
			f := Finding{Kind: "finding"}
			parts := strings.SplitN(rest, " :: ", 2)
			if len(parts) == 2 {
				f.Text = parts[1]
			}
			head := parts[0]
			if i := strings.Index(head, "property="); i >= 0 {
				f.Property = strings.Fields(head[i+9:])[0]
			}
			if i := strings.Index(head, "obligation="); i >= 0 {
				f.Obl = strings.TrimSpace(head[i+11:])
			}
			out = append(out, f)
		} else if strings.HasPrefix(l, "fixed:") {
			out = append(out, Finding{Kind: "fixed", Text: l})
		}
	}
	return out
}

type evObl struct {
	Name    string  `json:"name"`
	Kind    string  `json:"kind"`
	Status  string  `json:"status"`
	Solver  string  `json:"solver"`
	Seconds float64 `json:"seconds"`
}

type runSummary struct {
	required    int
	discharged  int
	advisoryUn  []string
	failures    []*OblResult
	failFuncs   map[*OblResult]string
	engineErrs  []string
	known       []string
	funcs       []string
	obls        []evObl
	notes       map[string]bool
	solverTime  float64
	bySolver    map[string]int
	samples     []map[string]string
	vacuous     []string
	loops       int
	maxVC       int
	coverChecks int
}

func runProperty(e *Engine, pc *PropConfig, findings []Finding) *runSummary {
	rs := &runSummary{notes: map[string]bool{}, bySolver: map[string]int{}, failFuncs: map[*OblResult]string{}}
	sem := make(chan struct{}, 16)
	type out struct {
		i  int
		fr *FuncResult
	}
	frs := make([]*FuncResult, len(pc.Functions))
	ch := make(chan out)
	for i, f := range pc.Functions {
		go func(i int, f string) {
			if e.cons.Funcs[f] == nil {
				ch <- out{i, &FuncResult{Key: f, Errors: []string{"no contract found for " + f}}}
				return
			}
			ch <- out{i, e.verifyFunc(f, sem)}
		}(i, f)
	}
	for range pc.Functions {
		o := <-ch
		frs[o.i] = o.fr
	}
	for _, ce := range e.cons.Errors {
		rs.engineErrs = append(rs.engineErrs, "contract file: "+ce)
	}
	knownSet := map[string]Finding{}
	for _, f := range findings {
		if f.Kind == "finding" && f.Property == pc.ID {
			knownSet[f.Obl] = f
		}
	}
	for _, fr := range frs {
		rs.funcs = append(rs.funcs, fr.Key)
		rs.loops += fr.Loops
		if fr.VCBytes > rs.maxVC {
			rs.maxVC = fr.VCBytes
		}
		for _, er := range fr.Errors {
			rs.engineErrs = append(rs.engineErrs, fr.Key+": "+er)
		}
		for _, n := range fr.Notes {
			rs.notes[n] = true
		}
		for _, r := range fr.Results {
			if r == nil {
				continue
			}
			rs.solverTime += r.Seconds
			o := r.Obl
			if o.Cover {
				rs.coverChecks++
				if r.Status == "cover-vacuous" {
					rs.vacuous = append(rs.vacuous, o.Name)
				}
				continue
			}
			rs.obls = append(rs.obls, evObl{o.Name, o.Kind, r.Status, r.Solver, r.Seconds})
			if !o.Required {
				if r.Status != "discharged" {
					rs.advisoryUn = append(rs.advisoryUn, o.Name)
				}
				continue
			}
			if kf, ok := knownSet[o.Name]; ok {
				if r.Status != "discharged" {
					rs.known = append(rs.known, fmt.Sprintf("%s %s", o.Name, kf.Text))
				} else {
					rs.notes["known finding no longer fails: "+o.Name] = true
					rs.required++
					rs.discharged++
				}
				continue
			}
			rs.required++
			if r.Status == "discharged" {
				rs.discharged++
				rs.bySolver[r.Solver]++
				if len(rs.samples) < 6 && r.Solver != "trivial" {
					rs.samples = append(rs.samples, map[string]string{"obligation": o.Name, "goal": clip(o.Goal, 600), "path_guard": clip(o.Guard, 200), "solver": r.Solver})
				}
			} else {
				rs.failures = append(rs.failures, r)
				rs.failFuncs[r] = fr.Key
			}
		}
	}
	return rs
}

func clip(s string, n int) string {
	if len(s) > n {
		return s[:n] + "…"
	}
	return s
}

func cmdCheck(args []string) int {
	start := time.Now()
	fs := flag.NewFlagSet("check", flag.ExitOnError)
	repo := fs.String("repo", "/repo", "repository")
	tier := fs.String("tier", "", "quick|thorough")
	noEvidence := fs.Bool("no-evidence", false, "do not write the evidence file")
	if len(args) < 1 {
		fmt.Fprintln(os.Stderr, "usage: govc check <ID> [--tier quick|thorough]")
		return 2
	}
	id := args[0]
	fs.Parse(args[1:])
	if *tier == "" {
		*tier = os.Getenv("VERIF_TIER")
	}
	if *tier == "" {
		*tier = "quick"
	}
	seed := 0
	if s := os.Getenv("VERIF_SEED"); s != "" {
		seed, _ = strconv.Atoi(s)
	}
	props, err := loadProps()
	if err != nil {
		fmt.Fprintln(os.Stderr, "props.json:", err)
		return 2
	}
	pc := props[id]
	if pc == nil {
		fmt.Fprintln(os.Stderr, "unknown property", id)
		return 2
	}
	root := verifRoot()
	replayDir := filepath.Join(root, "replays", id)
	os.RemoveAll(replayDir)
	os.MkdirAll(replayDir, 0o755)
	fail := func(name, body string, n int) {
		p := filepath.Join(replayDir, fmt.Sprintf("violation_%d.txt", n))
		os.WriteFile(p, []byte(body), 0o644)
		fmt.Printf("VIOLATION property=%s replay=%s obligation=%q no-failing-input-found\n", id, p, name)
	}
	e, err := loadEngine(*repo, pc.Packages, nil, stdSpecFiles())
	if err != nil {
		// the tree does not load: nothing can be decided
		fail("load", "the repository packages could not be loaded with -tags verif:\n"+err.Error(), 1)
		writeEvidence(root, id, *tier, seed, nil, pc, time.Since(start).Seconds(), 1, e)
		return 1
	}
	e.timeout = 10 * time.Second
	if *tier == "thorough" {
		e.timeout = 60 * time.Second
	}
	wd, _ := os.MkdirTemp("", "govc-"+id)
	e.workdir = wd
	defer os.RemoveAll(wd)
	findings := loadFindings()
	rs := runProperty(e, pc, findings)
	// structural checks
	for _, sc := range pc.Structural {
		if strings.HasPrefix(sc, "shared-writes|") {
			// one obligation per offending (function, field) pair, so that a recorded finding suppresses exactly that pair
			offenders, scanned, serr := e.sharedWrites(sc)
			head := strings.Join(strings.Split(sc, "|")[:3], "|")
			add := func(name string, ok bool, detail string) {
				rs.required++
				for _, f := range findings {
					if f.Kind == "finding" && f.Property == id && f.Obl == name {
						if !ok {
							rs.known = append(rs.known, name+" "+f.Text)
						}
						rs.required--
						return
					}
				}
				rs.obls = append(rs.obls, evObl{name, "structural", map[bool]string{true: "discharged", false: "failed"}[ok], "ssa-scan", 0})
				if ok {
					rs.discharged++
					rs.bySolver["ssa-scan"]++
				} else {
					rs.failures = append(rs.failures, &OblResult{Obl: &Obl{Name: name, Kind: "structural"}, Status: "failed", Raw: detail, Solver: "ssa-scan"})
				}
			}
			add("structural:"+head+"#scan", serr == "" && scanned > 0, fmt.Sprintf("%s (writes scanned: %d)", serr, scanned))
			for _, o := range offenders {
				add("structural:"+head+"#"+o, false, "write to request-shared state outside set-up code, without the object's lock: "+o)
			}
			continue
		}
		if strings.HasPrefix(sc, "recursion-guarded|") {
			cycles, nf, serr := e.recursionGuarded(sc)
			head := strings.Join(strings.Split(sc, "|")[:2], "|")
			add := func(name string, ok bool, detail string) {
				rs.required++
				for _, f := range findings {
					if f.Kind == "finding" && f.Property == id && f.Obl == name {
						if !ok {
							rs.known = append(rs.known, name+" "+f.Text)
						}
						rs.required--
						return
					}
				}
				rs.obls = append(rs.obls, evObl{name, "structural", map[bool]string{true: "discharged", false: "failed"}[ok], "ssa-scan", 0})
				if ok {
					rs.discharged++
					rs.bySolver["ssa-scan"]++
				} else {
					rs.failures = append(rs.failures, &OblResult{Obl: &Obl{Name: name, Kind: "structural"}, Status: "failed", Raw: detail, Solver: "ssa-scan"})
				}
			}
			add("structural:"+sc+"#scan", serr == "" && nf > 0, fmt.Sprintf("%s (functions in the call graph: %d)", serr, nf))
			for _, c := range cycles {
				add("structural:"+head+"#cycle:"+c, false, "recursion cycle that does not pass through a depth guard: "+c)
			}
			continue
		}
		ok, detail := e.structural(sc)
		rs.required++
		name := "structural:" + sc
		known := false
		for _, f := range findings {
			if f.Kind == "finding" && f.Property == id && f.Obl == name {
				known = true
				if !ok {
					rs.known = append(rs.known, name+" "+f.Text)
				}
			}
		}
		if known {
			rs.required--
			continue
		}
		rs.obls = append(rs.obls, evObl{name, "structural", map[bool]string{true: "discharged", false: "failed"}[ok], "ssa-scan", 0})
		if ok {
			rs.discharged++
			rs.bySolver["ssa-scan"]++
		} else {
			rs.failures = append(rs.failures, &OblResult{Obl: &Obl{Name: name, Kind: "structural"}, Status: "failed", Raw: detail, Solver: "ssa-scan"})
		}
	}
	// ghost lemmas (pure SMT files under /verif/lemmas): discharged when every solver that answers says unsat
	for _, lf := range pc.Lemmas {
		rs.required++
		name := "lemma:" + lf
		b, err := os.ReadFile(filepath.Join(root, lf))
		st := "error"
		solver := ""
		raw := ""
		if err == nil {
			q := strings.ReplaceAll(string(b), "(check-sat)", "")
			r := solve(wd, "lemma-"+filepath.Base(lf), q, e.timeout, false)
			solver, raw = r.Solver, r.Raw
			rs.solverTime += r.Seconds
			if r.Status == "unsat" {
				st = "discharged"
			} else {
				st = r.Status
			}
		} else {
			raw = err.Error()
		}
		rs.obls = append(rs.obls, evObl{name, "lemma", st, solver, 0})
		if st == "discharged" {
			rs.discharged++
			rs.bySolver[solver]++
		} else {
			rs.failures = append(rs.failures, &OblResult{Obl: &Obl{Name: name, Kind: "lemma"}, Status: st, Raw: raw, Solver: solver})
		}
	}
	violations := 0
	for _, k := range rs.known {
		fmt.Printf("KNOWN-FINDING: property=%s %s\n", id, k)
	}
	n := 0
	for _, er := range rs.engineErrs {
		n++
		violations++
		fail("engine:"+er, "The obligations of this property could not be generated from the current tree:\n"+er+"\n", n)
	}
	for _, v := range rs.vacuous {
		n++
		violations++
		fail(v, "vacuity: the assumptions at this point are contradictory (cover unsat): "+v+"\n", n)
	}
	for _, r := range rs.failures {
		n++
		violations++
		body := fmt.Sprintf("property: %s\nobligation: %s\nkind: %s\nstatus: %s (solver %s, %.2fs)\nfunction: %s\nsource: %s\n\ngoal:\n%s\n\npath guard:\n%s\n\nsolver output:\n%s\n",
			id, r.Obl.Name, r.Obl.Kind, r.Status, r.Solver, r.Seconds, rs.failFuncs[r], r.Obl.Text, r.Obl.Goal, r.Obl.Guard, clip(r.Raw, 20000))
		p := filepath.Join(replayDir, fmt.Sprintf("violation_%d.txt", n))
		if r.Query != "" {
			if qb, err := os.ReadFile(r.Query); err == nil {
				os.WriteFile(filepath.Join(replayDir, fmt.Sprintf("violation_%d.smt2", n)), qb, 0o644)
				body += fmt.Sprintf("\nquery: %s\n", filepath.Join(replayDir, fmt.Sprintf("violation_%d.smt2", n)))
			}
		}
		replayed := false
		if r.Status == "failed" && r.Model != "" {
			if res := e.tryReplay(rs.failFuncs[r], r, replayDir, n); res != "" {
				body += "\nreplay against the real code:\n" + res + "\n"
				replayed = strings.Contains(res, "REPRODUCED")
			}
		}
		os.WriteFile(p, []byte(body), 0o644)
		if replayed {
			fmt.Printf("VIOLATION property=%s replay=%s obligation=%q\n", id, p, r.Obl.Name)
		} else {
			fmt.Printf("VIOLATION property=%s replay=%s obligation=%q no-failing-input-found\n", id, p, r.Obl.Name)
		}
	}
	if rs.required == 0 {
		n++
		violations++
		fail("no-obligations", "vacuity: the check generated no required obligation", n)
	}
	wall := time.Since(start).Seconds()
	if !*noEvidence {
		writeEvidenceRS(root, id, *tier, seed, rs, pc, wall, violations, e)
	}
	fmt.Printf("%s: %d/%d required obligations discharged, %d known findings, %d advisory undecided, %d violations, %.1fs\n", id, rs.discharged, rs.required, len(rs.known), len(rs.advisoryUn), violations, wall)
	if violations > 0 {
		return 1
	}
	return 0
}

func writeEvidence(root, id, tier string, seed int, rs *runSummary, pc *PropConfig, wall float64, violations int, e *Engine) {
	writeEvidenceRS(root, id, tier, seed, &runSummary{notes: map[string]bool{}, bySolver: map[string]int{}}, pc, wall, violations, e)
}

func writeEvidenceRS(root, id, tier string, seed int, rs *runSummary, pc *PropConfig, wall float64, violations int, e *Engine) {
	var notes []string
	for n := range rs.notes {
		notes = append(notes, n)
	}
	sort.Strings(notes)
	trusted := []string{
		"govc VC generator (SSA -> SMT translation), go/ssa, go/types",
		"SMT solvers z3 5.1.0 (z3-new), z3 4.8.12, cvc5 1.0.3: an obligation is discharged when one of them answers unsat",
		"encoding: int/int64 as mathematical integers with explicit 64-bit wrap on + - * conversions; float64 uninterpreted; strings as uninterpreted sort with len/at; per-field Burstall heap; pointers never dangle",
	}
	var usedTrusted []string
	if e != nil && e.cons != nil {
		for k, c := range e.cons.Funcs {
			if c.Trusted && c.Used {
				usedTrusted = append(usedTrusted, "trusted contract: "+k)
			}
			for _, cl := range c.Ensures {
				if cl.Assumed && c.Used {
					usedTrusted = append(usedTrusted, "unverified summary postcondition of "+k+": "+cl.Text)
				}
			}
		}
		for _, a := range e.cons.Axioms {
			if !a.Lemma {
				usedTrusted = append(usedTrusted, "axiom: "+a.Name)
			}
		}
	}
	sort.Strings(usedTrusted)
	assumptions := append([]string{}, pc.Assumptions...)
	assumptions = append(assumptions, usedTrusted...)
	assumptions = append(assumptions, notes...)
	cov := map[string]any{
		"obligations":              rs.required,
		"discharged":               rs.discharged,
		"checker_cmd":              fmt.Sprintf("/verif/bin/govc check %s --tier %s", id, tier),
		"trusted_base":             trusted,
		"functions_under_contract": rs.funcs,
		"loops_with_cut_points":    rs.loops,
		"known_findings":           rs.known,
		"undecided_advisory":       rs.advisoryUn,
		"discharged_by_backend":    rs.bySolver,
		"solver_seconds_total":     rs.solverTime,
		"vacuity_covers_checked":   rs.coverChecks,
		"max_vc_bytes":             rs.maxVC,
		"bounded_standins":         pc.Bounded,
		"samples":                  rs.samples,
		"per_obligation":           rs.obls,
		"engine_errors":            rs.engineErrs,
	}
	if len(rs.samples) == 0 {
		cov["samples"] = []string{"(no solver-discharged obligation in this run)"}
	}
	ev := map[string]any{
		"property_id": id,
		"tier":        tier,
		"seed":        seed,
		"level":       "proof",
		"coverage":    cov,
		"assumptions": assumptions,
		"wall_s":      wall,
		"violations":  violations,
	}
	b, _ := json.MarshalIndent(ev, "", " ")
	os.MkdirAll(filepath.Join(root, "evidence"), 0o755)
	os.WriteFile(filepath.Join(root, "evidence", id+".json"), b, 0o644)
}

func cmdSelftest(args []string) int { return selftest(args) }
