package main

import (
	"flag"
	"fmt"
	"os"
	"path/filepath"
	"sort"
	"strings"
	"time"
)

type multiFlag []string

func (m *multiFlag) String() string     { return strings.Join(*m, ",") }
func (m *multiFlag) Set(s string) error { *m = append(*m, s); return nil }

func verifRoot() string {
	if v := os.Getenv("VERIF_ROOT"); v != "" {
		return v
	}
	exe, err := os.Executable()
	if err == nil {
		d := filepath.Dir(filepath.Dir(exe))
		if _, err := os.Stat(filepath.Join(d, "contracts")); err == nil {
			return d
		}
	}
	return "/verif"
}

func stdSpecFiles() []string {
	fs, _ := filepath.Glob(filepath.Join(verifRoot(), "contracts", "*.spec"))
	sort.Strings(fs)
	return fs
}

func main() {
	os.Setenv("PATH", "/opt/veriftools/go1.26.8/bin:"+os.Getenv("PATH"))
	os.Setenv("GOFLAGS", "-mod=mod")
	os.Setenv("GOPROXY", "off")
	os.Setenv("GOSUMDB", "off")
	os.Setenv("GOTOOLCHAIN", "local")
	if len(os.Args) < 2 {
		fmt.Fprintln(os.Stderr, "usage: govc verify|check|funcs|selftest ...")
		os.Exit(2)
	}
	switch os.Args[1] {
	case "verify":
		cmdVerify(os.Args[2:])
	case "funcs":
		cmdFuncs(os.Args[2:])
	case "structural":
		cmdStructural(os.Args[2:])
	case "check":
		os.Exit(cmdCheck(os.Args[2:]))
	case "selftest":
		os.Exit(cmdSelftest(os.Args[2:]))
	default:
		fmt.Fprintln(os.Stderr, "unknown command")
		os.Exit(2)
	}
}

func cmdFuncs(args []string) {
	fs := flag.NewFlagSet("funcs", flag.ExitOnError)
	repo := fs.String("repo", "/repo", "repository")
	fs.Parse(args)
	e, err := loadEngine(*repo, fs.Args(), nil, stdSpecFiles())
	if err != nil {
		fmt.Fprintln(os.Stderr, err)
		os.Exit(2)
	}
	var ks []string
	for k, f := range e.funcs {
		if f.Pkg != nil && e.isRoot(f.Pkg.Pkg) || (f.Parent() != nil) {
			if f.Blocks != nil {
				ks = append(ks, fmt.Sprintf("%s\tloops=%d", k, countLoops(e, k)))
			}
		}
	}
	sort.Strings(ks)
	for _, k := range ks {
		fmt.Println(k)
	}
}

func countLoops(e *Engine, k string) int {
	ft := e.newFT(e.funcs[k], nil)
	ft.computeLoops()
	return len(ft.loops)
}

func cmdVerify(args []string) {
	fs := flag.NewFlagSet("verify", flag.ExitOnError)
	repo := fs.String("repo", "/repo", "repository")
	var pkgs, funcs multiFlag
	fs.Var(&pkgs, "p", "package pattern")
	fs.Var(&funcs, "f", "function key")
	timeout := fs.Int("t", 10, "per-query timeout (s)")
	verbose := fs.Bool("v", false, "verbose")
	keep := fs.String("keep", "", "keep SMT files in this directory")
	split := fs.Bool("split", false, "diagnose: re-try every top-level conjunct of an undischarged goal on its own")
	fs.Parse(args)
	e, err := loadEngine(*repo, pkgs, nil, stdSpecFiles())
	if err != nil {
		fmt.Fprintln(os.Stderr, err)
		os.Exit(2)
	}
	for _, ce := range e.cons.Errors {
		fmt.Println("CONTRACT ERROR:", ce)
	}
	e.timeout = time.Duration(*timeout) * time.Second
	if *keep != "" {
		os.MkdirAll(*keep, 0o755)
		e.workdir = *keep
	} else {
		d, _ := os.MkdirTemp("", "govc")
		e.workdir = d
		defer os.RemoveAll(d)
	}
	fmt.Printf("loaded in %.1fs\n", e.loadSecs)
	sem := make(chan struct{}, 16)
	bad := 0
	for _, f := range funcs {
		fr := e.verifyFunc(f, sem)
		fmt.Printf("== %s  (%d obligations, %d loops, VC %d bytes, %.1fs)\n", f, len(fr.Results), fr.Loops, fr.VCBytes, fr.Seconds)
		for _, er := range fr.Errors {
			fmt.Println("  ERROR:", er)
			bad++
		}
		if *verbose {
			for _, n := range fr.Notes {
				fmt.Println("  note:", n)
			}
		}
		shownErr := false
		for _, r := range fr.Results {
			if r == nil {
				continue
			}
			ok := r.Status == "discharged" || r.Status == "cover-ok"
			if !ok || *verbose {
				req := ""
				if !r.Obl.Required {
					req = " (advisory)"
				}
				fmt.Printf("  %-14s %s%s [%s %.2fs]\n", r.Status, r.Obl.Name, req, r.Solver, r.Seconds)
				if !ok && r.Obl.Required {
					bad++
				}
				if r.Status == "failed" && *verbose {
					fmt.Println(indent(trimModel(r.Model), "      "))
				}
				if r.Status == "error" && !shownErr {
					shownErr = true
					fmt.Println(indent(firstLines(r.Raw, 2), "      "))
				}
				if !ok && *split && r.Obl.Required {
					splitDiagnose(e, r)
				}
			}
		}
	}
	if bad > 0 {
		os.Exit(1)
	}
}

func indent(s, p string) string {
	return p + strings.ReplaceAll(strings.TrimRight(s, "\n"), "\n", "\n"+p)
}

func firstLines(s string, n int) string {
	ls := strings.Split(s, "\n")
	if len(ls) > n {
		ls = ls[:n]
	}
	return strings.Join(ls, "\n")
}

func trimModel(m string) string {
	if len(m) > 6000 {
		return m[:6000] + "\n..."
	}
	return m
}

// splitDiagnose re-runs an undischarged obligation once per top-level conjunct of its goal
// (development aid: tells which part of a conjunctive contract clause the solvers cannot prove).
func splitDiagnose(e *Engine, r *OblResult) {
	qb, err := os.ReadFile(r.Query)
	if err != nil {
		return
	}
	q := string(qb)
	last := "(assert " + and(r.Obl.Guard, not(r.Obl.Goal)) + ")"
	i := strings.LastIndex(q, last)
	if i < 0 {
		fmt.Println("      split: final assertion not found")
		return
	}
	prefix := q[:i]
	parts := flattenAnd(string(r.Obl.Goal))
	for k, pt := range parts {
		query := prefix + "(assert " + and(r.Obl.Guard, not(Term(pt))) + ")\n"
		sr := solve(e.workdir, fmt.Sprintf("split.%d", k), query, e.timeout, false)
		txt := pt
		if len(txt) > 400 {
			txt = txt[:400] + "..."
		}
		fmt.Printf("      part %d/%d %-8s %.1fs %s\n", k+1, len(parts), sr.Status, sr.Seconds, txt)
	}
}

func flattenAnd(t string) []string {
	t = strings.TrimSpace(t)
	if !strings.HasPrefix(t, "(and ") {
		return []string{t}
	}
	var out []string
	depth, start := 0, -1
	body := t[5 : len(t)-1]
	for i := 0; i < len(body); i++ {
		switch body[i] {
		case '|':
			j := strings.IndexByte(body[i+1:], '|')
			if j < 0 {
				return []string{t}
			}
			if depth == 0 && start < 0 {
				start = i
			}
			i += j + 1
			if depth == 0 && (i+1 >= len(body) || body[i+1] == ' ') {
				out = append(out, flattenAnd(body[start:i+1])...)
				start = -1
			}
		case '(':
			if depth == 0 {
				start = i
			}
			depth++
		case ')':
			depth--
			if depth == 0 {
				out = append(out, flattenAnd(body[start:i+1])...)
				start = -1
			}
		case ' ':
			if depth == 0 && start >= 0 {
				out = append(out, body[start:i])
				start = -1
			}
		default:
			if depth == 0 && start < 0 {
				start = i
			}
		}
	}
	if start >= 0 {
		out = append(out, body[start:])
	}
	return out
}

// cmdStructural runs one structural (SSA scan) check: govc structural -p <pkg>... '<spec>'
func cmdStructural(args []string) {
	fs := flag.NewFlagSet("structural", flag.ExitOnError)
	repo := fs.String("repo", "/repo", "repository")
	var pkgs multiFlag
	fs.Var(&pkgs, "p", "package pattern")
	fs.Parse(args)
	e, err := loadEngine(*repo, pkgs, nil, stdSpecFiles())
	if err != nil {
		fmt.Fprintln(os.Stderr, err)
		os.Exit(2)
	}
	for _, sc := range fs.Args() {
		if strings.HasPrefix(sc, "recursion-guarded|") {
			cycles, n, serr := e.recursionGuarded(sc)
			fmt.Printf("%s: %d functions, %d unguarded cycles %s\n", sc, n, len(cycles), serr)
			for _, c := range cycles {
				fmt.Println("  cycle:", c)
			}
			continue
		}
		ok, detail := e.structural(sc)
		fmt.Printf("%s: %v\n%s\n", sc, ok, detail)
	}
}
