package main

import (
	"flag"
	"fmt"
	"os"
	"path/filepath"
	"sort"
	"strings"
	"time"
)

type multiFlag []string

func (m *multiFlag) String() string     { return strings.Join(*m, ",") }
func (m *multiFlag) Set(s string) error { *m = append(*m, s); return nil }

func verifRoot() string {
	if v := os.Getenv("VERIF_ROOT"); v != "" {
		return v
	}
	exe, err := os.Executable()
	if err == nil {
		d := filepath.Dir(filepath.Dir(exe))
		if _, err := os.Stat(filepath.Join(d, "contracts")); err == nil {
			return d
		}
	}
	return "/verif"
}

func stdSpecFiles() []string {
	fs, _ := filepath.Glob(filepath.Join(verifRoot(), "contracts", "*.spec"))
	sort.Strings(fs)
	return fs
}

func main() {
	os.Setenv("PATH", "/opt/veriftools/go1.26.8/bin:"+os.Getenv("PATH"))
	os.Setenv("GOFLAGS", "-mod=mod")
	os.Setenv("GOPROXY", "off")
	os.Setenv("GOSUMDB", "off")
	os.Setenv("GOTOOLCHAIN", "local")
	if len(os.Args) < 2 {
		fmt.Fprintln(os.Stderr, "usage: govc verify|check|funcs|selftest ...")
		os.Exit(2)
	}
	switch os.Args[1] {
	case "verify":
		cmdVerify(os.Args[2:])
	case "funcs":
		cmdFuncs(os.Args[2:])
	case "check":
		os.Exit(cmdCheck(os.Args[2:]))
	case "selftest":
		os.Exit(cmdSelftest(os.Args[2:]))
	default:
		fmt.Fprintln(os.Stderr, "unknown command")
		os.Exit(2)
	}
}

func cmdFuncs(args []string) {
	fs := flag.NewFlagSet("funcs", flag.ExitOnError)
	repo := fs.String("repo", "/repo", "repository")
	fs.Parse(args)
	e, err := loadEngine(*repo, fs.Args(), nil, stdSpecFiles())
	if err != nil {
		fmt.Fprintln(os.Stderr, err)
		os.Exit(2)
	}
	var ks []string
	for k, f := range e.funcs {
		if f.Pkg != nil && e.isRoot(f.Pkg.Pkg) || (f.Parent() != nil) {
			if f.Blocks != nil {
				ks = append(ks, fmt.Sprintf("%s\tloops=%d", k, countLoops(e, k)))
			}
		}
	}
	sort.Strings(ks)
	for _, k := range ks {
		fmt.Println(k)
	}
}

func countLoops(e *Engine, k string) int {
	ft := e.newFT(e.funcs[k], nil)
	ft.computeLoops()
	return len(ft.loops)
}

func cmdVerify(args []string) {
	fs := flag.NewFlagSet("verify", flag.ExitOnError)
	repo := fs.String("repo", "/repo", "repository")
	var pkgs, funcs multiFlag
	fs.Var(&pkgs, "p", "package pattern")
	fs.Var(&funcs, "f", "function key")
	timeout := fs.Int("t", 10, "per-query timeout (s)")
	verbose := fs.Bool("v", false, "verbose")
	keep := fs.String("keep", "", "keep SMT files in this directory")
	fs.Parse(args)
	e, err := loadEngine(*repo, pkgs, nil, stdSpecFiles())
	if err != nil {
		fmt.Fprintln(os.Stderr, err)
		os.Exit(2)
	}
	for _, ce := range e.cons.Errors {
		fmt.Println("CONTRACT ERROR:", ce)
	}
	e.timeout = time.Duration(*timeout) * time.Second
	if *keep != "" {
		os.MkdirAll(*keep, 0o755)
		e.workdir = *keep
	} else {
		d, _ := os.MkdirTemp("", "govc")
		e.workdir = d
		defer os.RemoveAll(d)
	}
	fmt.Printf("loaded in %.1fs\n", e.loadSecs)
	sem := make(chan struct{}, 16)
	bad := 0
	for _, f := range funcs {
		fr := e.verifyFunc(f, sem)
		fmt.Printf("== %s  (%d obligations, %d loops, VC %d bytes, %.1fs)\n", f, len(fr.Results), fr.Loops, fr.VCBytes, fr.Seconds)
		for _, er := range fr.Errors {
			fmt.Println("  ERROR:", er)
			bad++
		}
		if *verbose {
			for _, n := range fr.Notes {
				fmt.Println("  note:", n)
			}
		}
		shownErr := false
		for _, r := range fr.Results {
			if r == nil {
				continue
			}
			ok := r.Status == "discharged" || r.Status == "cover-ok"
			if !ok || *verbose {
				req := ""
				if !r.Obl.Required {
					req = " (advisory)"
				}
				fmt.Printf("  %-14s %s%s [%s %.2fs]\n", r.Status, r.Obl.Name, req, r.Solver, r.Seconds)
				if !ok && r.Obl.Required {
					bad++
				}
				if r.Status == "failed" && *verbose {
					fmt.Println(indent(trimModel(r.Model), "      "))
				}
				if r.Status == "error" && !shownErr {
					shownErr = true
					fmt.Println(indent(firstLines(r.Raw, 2), "      "))
				}
			}
		}
	}
	if bad > 0 {
		os.Exit(1)
	}
}

func indent(s, p string) string {
	return p + strings.ReplaceAll(strings.TrimRight(s, "\n"), "\n", "\n"+p)
}

func firstLines(s string, n int) string {
	ls := strings.Split(s, "\n")
	if len(ls) > n {
		ls = ls[:n]
	}
	return strings.Join(ls, "\n")
}

func trimModel(m string) string {
	if len(m) > 6000 {
		return m[:6000] + "\n..."
	}
	return m
}
