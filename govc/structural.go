package main

import (
	"fmt"
	"go/token"
	"go/types"

	"golang.org/x/tools/go/ssa"
)

// checkFunctional: syntactic determinism check for `functional` functions: scalar parameters,
// no reads of global or caller memory, no map iteration, no concurrency, deterministic callees only.
func (e *Engine) checkFunctional(fn *ssa.Function) []string {
	var errs []string
	d := newDecls()
	for _, p := range fn.Params {
		s := d.sortOf(p.Type())
		if s != "Int" && s != "Bool" && s != "Str" && s != "F64" {
			errs = append(errs, fmt.Sprintf("functional: parameter %s is not scalar", p.Name()))
		}
		if _, ok := p.Type().Underlying().(*types.Pointer); ok {
			errs = append(errs, fmt.Sprintf("functional: parameter %s is a pointer", p.Name()))
		}
	}
	if len(fn.FreeVars) > 0 {
		errs = append(errs, "functional: closure")
	}
	for _, b := range fn.Blocks {
		for _, ins := range b.Instrs {
			switch x := ins.(type) {
			case *ssa.UnOp:
				if x.Op == token.ARROW {
					errs = append(errs, "functional: channel receive")
				}
				if x.Op == token.MUL {
					if _, ok := x.X.(*ssa.Global); ok {
						errs = append(errs, "functional: reads global "+x.X.Name())
					}
				}
			case *ssa.Range:
				if _, ok := x.X.Type().Underlying().(*types.Map); ok {
					errs = append(errs, "functional: map iteration order")
				}
			case *ssa.Go, *ssa.Select, *ssa.Send, *ssa.MakeClosure, *ssa.Defer:
				errs = append(errs, fmt.Sprintf("functional: %T", ins))
			case *ssa.Call:
				c := x.Common()
				if _, ok := c.Value.(*ssa.Builtin); ok {
					continue
				}
				if c.IsInvoke() {
					errs = append(errs, "functional: interface call")
					continue
				}
				callee := c.StaticCallee()
				if callee == nil {
					errs = append(errs, "functional: dynamic call")
					continue
				}
				name := normName(callee.String())
				if con := e.cons.Funcs[name]; con != nil && con.Functional {
					continue
				}
				if callee.Blocks == nil && purePkgs[calleePkgPath(callee)] && !impureFuncs[name] && !nondeterministic[name] {
					continue
				}
				errs = append(errs, "functional: calls "+name)
			}
		}
	}
	return errs
}

// structural evaluates a named structural (solver-free) check over the SSA of the loaded packages.
func (e *Engine) structural(spec string) (bool, string) {
	return false, "unknown structural check: " + spec
}
