package main

import (
	"fmt"
	"go/constant"
	"go/token"
	"go/types"
	"sort"
	"strings"

	"golang.org/x/tools/go/ssa"
)

// checkFunctional: syntactic determinism check for `functional` functions: scalar parameters,
// no reads of global or caller memory, no map iteration, no concurrency, deterministic callees only.
func (e *Engine) checkFunctional(fn *ssa.Function) []string {
	var errs []string
	d := newDecls()
	for _, p := range fn.Params {
		s := d.sortOf(p.Type())
		if s != "Int" && s != "Bool" && s != "Str" && s != "F64" {
			errs = append(errs, fmt.Sprintf("functional: parameter %s is not scalar", p.Name()))
		}
		if _, ok := p.Type().Underlying().(*types.Pointer); ok {
			errs = append(errs, fmt.Sprintf("functional: parameter %s is a pointer", p.Name()))
		}
	}
	if len(fn.FreeVars) > 0 {
		errs = append(errs, "functional: closure")
	}
	for _, b := range fn.Blocks {
		for _, ins := range b.Instrs {
			switch x := ins.(type) {
			case *ssa.UnOp:
				if x.Op == token.ARROW {
					errs = append(errs, "functional: channel receive")
				}
				if x.Op == token.MUL {
					if _, ok := x.X.(*ssa.Global); ok {
						errs = append(errs, "functional: reads global "+x.X.Name())
					}
				}
			case *ssa.Range:
				if _, ok := x.X.Type().Underlying().(*types.Map); ok {
					errs = append(errs, "functional: map iteration order")
				}
			case *ssa.Go, *ssa.Select, *ssa.Send, *ssa.MakeClosure, *ssa.Defer:
				errs = append(errs, fmt.Sprintf("functional: %T", ins))
			case *ssa.Call:
				c := x.Common()
				if _, ok := c.Value.(*ssa.Builtin); ok {
					continue
				}
				if c.IsInvoke() {
					errs = append(errs, "functional: interface call")
					continue
				}
				callee := c.StaticCallee()
				if callee == nil {
					errs = append(errs, "functional: dynamic call")
					continue
				}
				name := normName(callee.String())
				if con := e.cons.Funcs[name]; con != nil && con.Functional {
					continue
				}
				if callee.Blocks == nil && purePkgs[calleePkgPath(callee)] && !isImpure(name) && !nondeterministic[name] {
					continue
				}
				errs = append(errs, "functional: calls "+name)
			}
		}
	}
	return errs
}

// structural evaluates a named structural (solver-free) check over the SSA of the loaded packages.
//
//	calls-confined|<pkg name>|<callee,callee,...>|<allowed caller keys,...>
//	    every call (static or deferred/go) to one of the callees made by any function of the
//	    package (closures included) occurs in one of the allowed functions.
//	under-contract|<function key,...>
//	    each listed function exists and has a contract.
func (e *Engine) structural(spec string) (bool, string) {
	parts := strings.Split(spec, "|")
	switch parts[0] {
	case "calls-confined":
		if len(parts) != 4 {
			return false, "bad spec"
		}
		callees := map[string]bool{}
		for _, c := range strings.Split(parts[2], ",") {
			callees[strings.TrimSpace(c)] = true
		}
		allowed := map[string]bool{}
		for _, c := range strings.Split(parts[3], ",") {
			if c = strings.TrimSpace(c); c != "" {
				allowed[c] = true
			}
		}
		var bad []string
		n := 0
		for key, fn := range e.funcs {
			pk := fnPackage(fn)
			if pk == nil || pkgKey(pk) != parts[1] || fn.Blocks == nil {
				continue
			}
			for _, b := range fn.Blocks {
				for _, ins := range b.Instrs {
					ci, ok := ins.(ssa.CallInstruction)
					if !ok {
						continue
					}
					c := ci.Common()
					name := ""
					if c.IsInvoke() {
						name = "(" + normName(types.TypeString(c.Value.Type(), nil)) + ")." + c.Method.Name()
					} else if f := c.StaticCallee(); f != nil {
						name = normName(f.String())
					}
					if callees[name] {
						n++
						if !allowed[key] {
							bad = append(bad, fmt.Sprintf("%s calls %s at %s", key, name, e.fset.Position(ins.Pos())))
						}
					}
				}
				// function values taken without a call (e.g. passing os.Open as a value)
				for _, ins := range b.Instrs {
					for _, op := range ins.Operands(nil) {
						if f, ok := (*op).(*ssa.Function); ok && callees[normName(f.String())] {
							if ci, isCall := ins.(ssa.CallInstruction); isCall && ci.Common().Value == f {
								continue
							}
							if !allowed[key] {
								bad = append(bad, fmt.Sprintf("%s takes %s as a value", key, normName(f.String())))
							}
						}
					}
				}
			}
		}
		if len(bad) > 0 {
			sort.Strings(bad)
			return false, strings.Join(bad, "\n")
		}
		return true, fmt.Sprintf("%d call sites, all inside the allowed functions", n)
	case "global-map-const-true":
		// global-map-const-true|<pkg name>|<global>: the map is only written by the package initialiser, with value `true`
		if len(parts) != 3 {
			return false, "bad spec"
		}
		var bad []string
		n := 0
		for key, fn := range e.funcs {
			pk := fnPackage(fn)
			if pk == nil || pkgKey(pk) != parts[1] || fn.Blocks == nil {
				continue
			}
			isInit := fn.Name() == "init" || strings.HasPrefix(fn.Name(), "init#")
			fromGlobal := func(v ssa.Value) bool {
				u, ok := v.(*ssa.UnOp)
				if !ok {
					return false
				}
				g, ok := u.X.(*ssa.Global)
				return ok && g.Name() == parts[2]
			}
			for _, b := range fn.Blocks {
				for _, ins := range b.Instrs {
					switch x := ins.(type) {
					case *ssa.Store:
						if g, ok := x.Addr.(*ssa.Global); ok && g.Name() == parts[2] {
							if !isInit {
								bad = append(bad, key+" reassigns "+parts[2])
							}
						}
					case *ssa.MapUpdate:
						isTarget := fromGlobal(x.Map)
						if mm, ok := x.Map.(*ssa.MakeMap); ok && isInit {
							// the literal being built in init: stored to the global afterwards
							for _, r := range *mm.Referrers() {
								if st, ok := r.(*ssa.Store); ok {
									if g, ok := st.Addr.(*ssa.Global); ok && g.Name() == parts[2] {
										isTarget = true
									}
								}
							}
						}
						if !isTarget {
							continue
						}
						n++
						c, ok := x.Value.(*ssa.Const)
						if !isInit {
							bad = append(bad, key+" writes "+parts[2])
						} else if !ok || c.Value == nil || c.Value.String() != "true" {
							bad = append(bad, "init stores a non-true value in "+parts[2])
						}
					case *ssa.Call:
						if bi, ok := x.Call.Value.(*ssa.Builtin); ok && (bi.Name() == "delete" || bi.Name() == "clear") && len(x.Call.Args) > 0 && fromGlobal(x.Call.Args[0]) {
							bad = append(bad, key+" deletes from "+parts[2])
						}
					}
				}
			}
		}
		if len(bad) > 0 {
			return false, strings.Join(bad, "\n")
		}
		if n == 0 {
			return false, "no initialiser entries found for " + parts[2]
		}
		return true, fmt.Sprintf("%d initialiser entries, all true", n)
	case "global-maps-inverse":
		// global-maps-inverse|<pkg name>|<global A>|<global B>: both string->string maps are written only by the
		// package initialiser, with constant keys and values, and B is exactly the inverse relation of A
		// (A[k] == v iff B[v] == k), so both are injective and map onto each other's key sets.
		if len(parts) != 4 && len(parts) != 5 {
			return false, "bad spec"
		}
		tables := map[string]map[string]string{parts[2]: {}, parts[3]: {}}
		var bad []string
		for key, fn := range e.funcs {
			pk := fnPackage(fn)
			if pk == nil || pkgKey(pk) != parts[1] || fn.Blocks == nil {
				continue
			}
			isInit := fn.Name() == "init" || strings.HasPrefix(fn.Name(), "init#")
			globalOf := func(v ssa.Value) string {
				if u, ok := v.(*ssa.UnOp); ok {
					if g, ok := u.X.(*ssa.Global); ok && tables[g.Name()] != nil {
						return g.Name()
					}
				}
				if mm, ok := v.(*ssa.MakeMap); ok && isInit && mm.Referrers() != nil {
					for _, r := range *mm.Referrers() {
						if st, ok := r.(*ssa.Store); ok {
							if g, ok := st.Addr.(*ssa.Global); ok && tables[g.Name()] != nil {
								return g.Name()
							}
						}
					}
				}
				return ""
			}
			for _, b := range fn.Blocks {
				for _, ins := range b.Instrs {
					switch x := ins.(type) {
					case *ssa.Store:
						if g, ok := x.Addr.(*ssa.Global); ok && tables[g.Name()] != nil && !isInit {
							bad = append(bad, key+" reassigns "+g.Name())
						}
					case *ssa.MapUpdate:
						t := globalOf(x.Map)
						if t == "" {
							continue
						}
						kc, ok1 := x.Key.(*ssa.Const)
						vc, ok2 := x.Value.(*ssa.Const)
						if !isInit {
							bad = append(bad, key+" writes "+t)
						} else if !ok1 || !ok2 || kc.Value == nil || vc.Value == nil || kc.Value.Kind() != constant.String || vc.Value.Kind() != constant.String {
							bad = append(bad, "init stores a non-constant entry in "+t)
						} else {
							k, v := constant.StringVal(kc.Value), constant.StringVal(vc.Value)
							if _, dup := tables[t][k]; dup {
								bad = append(bad, fmt.Sprintf("%s has two entries for %q", t, k))
							}
							tables[t][k] = v
						}
					case *ssa.Call:
						if bi, ok := x.Call.Value.(*ssa.Builtin); ok && (bi.Name() == "delete" || bi.Name() == "clear") && len(x.Call.Args) > 0 && globalOf(x.Call.Args[0]) != "" {
							bad = append(bad, key+" deletes from "+globalOf(x.Call.Args[0]))
						}
					}
				}
			}
		}
		a, bt := tables[parts[2]], tables[parts[3]]
		if len(a) == 0 || len(bt) == 0 {
			bad = append(bad, "no initialiser entries found")
		}
		// optional 5th part: the pairing itself, as a space-separated list `key value key value ...` for table A
		if len(parts) == 5 {
			f := strings.Fields(parts[4])
			want := map[string]string{}
			for i := 0; i+1 < len(f); i += 2 {
				want[f[i]] = f[i+1]
			}
			if len(want) != len(a) {
				bad = append(bad, fmt.Sprintf("%s has %d entries, the declared pairing %d", parts[2], len(a), len(want)))
			}
			for k, v := range want {
				if a[k] != v {
					bad = append(bad, fmt.Sprintf("%s[%q] = %q, declared pairing says %q", parts[2], k, a[k], v))
				}
			}
		}
		for k, v := range a {
			if bk, ok := bt[v]; !ok || bk != k {
				bad = append(bad, fmt.Sprintf("%s[%q] = %q but %s[%q] = %q", parts[2], k, v, parts[3], v, bk))
			}
		}
		for k, v := range bt {
			if ak, ok := a[v]; !ok || ak != k {
				bad = append(bad, fmt.Sprintf("%s[%q] = %q but %s[%q] = %q", parts[3], k, v, parts[2], v, ak))
			}
		}
		if len(bad) > 0 {
			sort.Strings(bad)
			return false, strings.Join(dedupe(bad), "; ")
		}
		return true, fmt.Sprintf("%d entries each, mutually inverse", len(a))
	case "chan-never-closed":
		// chan-never-closed|<pkg name>|<Type.field>: no function of the package applies close() to the channel held
		// in that field (directly or through a local copy of the field's value). A send on the channel can then
		// never hit a closed channel, whatever the interleaving.
		if len(parts) != 3 {
			return false, "bad spec"
		}
		var bad []string
		uses := 0
		isField := func(v ssa.Value) bool {
			for depth := 0; depth < 4; depth++ {
				switch x := v.(type) {
				case *ssa.UnOp:
					if x.Op != token.MUL {
						return false
					}
					fa, ok := x.X.(*ssa.FieldAddr)
					if !ok {
						return false
					}
					owner := deref(fa.X.Type())
					nt, _ := types.Unalias(owner).(*types.Named)
					st, _ := owner.Underlying().(*types.Struct)
					return nt != nil && st != nil && nt.Obj().Name()+"."+st.Field(fa.Field).Name() == parts[2]
				case *ssa.Field:
					nt, _ := types.Unalias(x.X.Type()).(*types.Named)
					st, _ := x.X.Type().Underlying().(*types.Struct)
					return nt != nil && st != nil && nt.Obj().Name()+"."+st.Field(x.Field).Name() == parts[2]
				case *ssa.ChangeType:
					v = x.X
				default:
					return false
				}
			}
			return false
		}
		for key, fn := range e.funcs {
			pk := fnPackage(fn)
			if pk == nil || pkgKey(pk) != parts[1] || fn.Blocks == nil {
				continue
			}
			for _, b := range fn.Blocks {
				for _, ins := range b.Instrs {
					switch x := ins.(type) {
					case *ssa.Send:
						if isField(x.Chan) {
							uses++
						}
					case ssa.CallInstruction:
						if bi, ok := x.Common().Value.(*ssa.Builtin); ok && bi.Name() == "close" && len(x.Common().Args) == 1 && isField(x.Common().Args[0]) {
							bad = append(bad, fmt.Sprintf("%s closes %s at %s", key, parts[2], e.fset.Position(ins.Pos())))
						}
					case *ssa.Select:
						for _, st := range x.States {
							if st.Dir == types.SendOnly && isField(st.Chan) {
								uses++
							}
						}
					}
				}
			}
		}
		if len(bad) > 0 {
			sort.Strings(bad)
			return false, strings.Join(bad, "; ")
		}
		if uses == 0 {
			return false, "no send on the channel found (vacuous)"
		}
		return true, fmt.Sprintf("%d send sites, no close", uses)
	case "types-frozen":
		// types-frozen|<pkg name>|<pkg.T,...>: no function of the package stores into a field of a value of one of
		// these struct types through a pointer, or into an element of a slice of them (values are only ever
		// built whole: composite literals stored into fresh allocations are constructors)
		if len(parts) != 3 {
			return false, "bad spec"
		}
		want := map[string]bool{}
		for _, c := range strings.Split(parts[2], ",") {
			want[strings.TrimSpace(c)] = true
		}
		tname := func(t types.Type) string {
			if n, ok := types.Unalias(t).(*types.Named); ok && n.Obj().Pkg() != nil {
				return n.Obj().Pkg().Name() + "." + n.Obj().Name()
			}
			return ""
		}
		var bad []string
		scanned := 0
		for key, fn := range e.funcs {
			pk := fnPackage(fn)
			if pk == nil || pkgKey(pk) != parts[1] || fn.Blocks == nil {
				continue
			}
			for _, b := range fn.Blocks {
				for _, ins := range b.Instrs {
					st, ok := ins.(*ssa.Store)
					if !ok {
						continue
					}
					scanned++
					switch a := st.Addr.(type) {
					case *ssa.FieldAddr:
						if want[tname(deref(a.X.Type()))] {
							if _, fresh := a.X.(*ssa.Alloc); !fresh {
								bad = append(bad, key+" writes a field of "+tname(deref(a.X.Type())))
							}
						}
					case *ssa.IndexAddr:
						if sl, ok := a.X.Type().Underlying().(*types.Slice); ok && want[tname(sl.Elem())] {
							if _, fresh := a.X.(*ssa.MakeSlice); !fresh {
								if _, isSlice := a.X.(*ssa.Slice); !isSlice {
									bad = append(bad, key+" writes an element of a []"+tname(sl.Elem()))
								}
							}
						}
					}
				}
			}
		}
		if len(bad) > 0 {
			sort.Strings(bad)
			return false, strings.Join(dedupe(bad), "; ")
		}
		if scanned == 0 {
			return false, "no stores scanned (vacuous)"
		}
		return true, fmt.Sprintf("%d stores scanned, none into the listed types", scanned)
	case "global-regex":
		// global-regex|<pkg>|<global>|<pattern>: the global is initialised once, by regexp.MustCompile of exactly this literal
		if len(parts) < 4 {
			return false, "bad spec"
		}
		want := strings.Join(parts[3:], "|")
		found := false
		var bad []string
		for key, fn := range e.funcs {
			pk := fnPackage(fn)
			if pk == nil || pkgKey(pk) != parts[1] || fn.Blocks == nil {
				continue
			}
			for _, b := range fn.Blocks {
				for _, ins := range b.Instrs {
					st, ok := ins.(*ssa.Store)
					if !ok {
						continue
					}
					g, ok := st.Addr.(*ssa.Global)
					if !ok || g.Name() != parts[2] {
						continue
					}
					call, ok := st.Val.(*ssa.Call)
					if !ok || call.Call.StaticCallee() == nil || normName(call.Call.StaticCallee().String()) != "regexp.MustCompile" || len(call.Call.Args) != 1 {
						bad = append(bad, key+" assigns "+parts[2]+" from something other than regexp.MustCompile(literal)")
						continue
					}
					c, ok := call.Call.Args[0].(*ssa.Const)
					if !ok || c.Value == nil || constant.StringVal(c.Value) != want {
						got := "?"
						if ok && c.Value != nil {
							got = constant.StringVal(c.Value)
						}
						bad = append(bad, fmt.Sprintf("%s compiles %q, expected %q", parts[2], got, want))
						continue
					}
					if fn.Name() != "init" {
						bad = append(bad, key+" reassigns "+parts[2])
					}
					found = true
				}
			}
		}
		if len(bad) > 0 {
			return false, strings.Join(bad, "\n")
		}
		if !found {
			return false, "no initialiser found for " + parts[2]
		}
		return true, "pattern literal as expected"
	case "fields-confined":
		// fields-confined|<pkg name>|<Type.field,...>|<allowed function keys,...>
		//     every access (address-of or value read) to one of the fields made by any function of the package occurs
		//     in one of the allowed functions (the ones under contract, where the guarded-by obligations are generated).
		if len(parts) != 4 {
			return false, "bad spec"
		}
		fields := map[string]bool{}
		for _, c := range strings.Split(parts[2], ",") {
			fields[strings.TrimSpace(c)] = true
		}
		allowed := map[string]bool{}
		for _, c := range strings.Split(parts[3], ",") {
			if c = strings.TrimSpace(c); c != "" {
				allowed[c] = true
			}
		}
		var bad []string
		n := 0
		for key, fn := range e.funcs {
			pk := fnPackage(fn)
			if pk == nil || pkgKey(pk) != parts[1] || fn.Blocks == nil {
				continue
			}
			for _, b := range fn.Blocks {
				for _, ins := range b.Instrs {
					var st *types.Struct
					var owner types.Type
					idx := -1
					switch x := ins.(type) {
					case *ssa.FieldAddr:
						owner = deref(x.X.Type())
						idx = x.Field
					case *ssa.Field:
						owner = x.X.Type()
						idx = x.Field
					}
					if idx < 0 {
						continue
					}
					st, _ = owner.Underlying().(*types.Struct)
					nt, _ := types.Unalias(owner).(*types.Named)
					if st == nil || nt == nil {
						continue
					}
					name := nt.Obj().Name() + "." + st.Field(idx).Name()
					if !fields[name] {
						continue
					}
					n++
					if !allowed[key] {
						bad = append(bad, key+" touches "+name)
					}
				}
			}
		}
		if len(bad) > 0 {
			sort.Strings(bad)
			return false, strings.Join(dedupe(bad), "; ")
		}
		if n == 0 {
			return false, "no access to the listed fields found (vacuous)"
		}
		return true, fmt.Sprintf("%d accesses, all in audited functions", n)
	case "go-confined":
		// go-confined|<pkg name>|<allowed function keys,...>: every go statement of the package is in an allowed function
		if len(parts) != 3 {
			return false, "bad spec"
		}
		allowed := map[string]bool{}
		for _, c := range strings.Split(parts[2], ",") {
			if c = strings.TrimSpace(c); c != "" {
				allowed[c] = true
			}
		}
		var bad []string
		n := 0
		for key, fn := range e.funcs {
			pk := fnPackage(fn)
			if pk == nil || pkgKey(pk) != parts[1] || fn.Blocks == nil {
				continue
			}
			for _, b := range fn.Blocks {
				for _, ins := range b.Instrs {
					if _, ok := ins.(*ssa.Go); ok {
						n++
						if !allowed[key] {
							bad = append(bad, key)
						}
					}
				}
			}
		}
		if len(bad) > 0 {
			sort.Strings(bad)
			return false, "go statement in " + strings.Join(dedupe(bad), ", ")
		}
		if n == 0 {
			return false, "no go statement found (vacuous)"
		}
		return true, fmt.Sprintf("%d go statements, all in audited functions", n)
	case "defer-close-first":
		// defer-close-first|<function key>: the first effectful instruction of the function registers `defer close(ch)` and the
		// function closes nothing else - so every other statement (and every later defer) runs before the channel is closed
		if len(parts) != 2 {
			return false, "bad spec"
		}
		fn := e.funcs[strings.TrimSpace(parts[1])]
		if fn == nil || len(fn.Blocks) == 0 {
			return false, "no such function: " + parts[1]
		}
		first := true
		closes := 0
		ok := false
		for _, b := range fn.Blocks {
			for _, ins := range b.Instrs {
				switch x := ins.(type) {
				case *ssa.DebugRef, *ssa.FieldAddr, *ssa.UnOp, *ssa.Field:
					continue
				case *ssa.Defer:
					if bi, isB := x.Call.Value.(*ssa.Builtin); isB && bi.Name() == "close" {
						closes++
						if first && b.Index == 0 {
							ok = true
						}
					}
				case ssa.CallInstruction:
					if bi, isB := x.Common().Value.(*ssa.Builtin); isB && bi.Name() == "close" {
						closes++
					}
				}
				first = false
			}
		}
		if !ok {
			return false, "the function does not begin with `defer close(...)`"
		}
		if closes != 1 {
			return false, fmt.Sprintf("%d close operations in the function, expected exactly the deferred one", closes)
		}
		return true, "begins with defer close(ch); no other close"
	case "defer-pair":
		// defer-pair|<pkg name>|<enter function key>|<leave function key>: the two functions are used only as a pair -
		// a function that calls enter does so once, in its entry block, on its own receiver, right after registering
		// `defer leave()` on the same receiver, and leave is called nowhere else. Hence every frame that entered
		// leaves exactly once, on every exit (error returns and panics included).
		if len(parts) != 4 {
			return false, "bad spec"
		}
		enter, leave := strings.TrimSpace(parts[2]), strings.TrimSpace(parts[3])
		if e.funcs[enter] == nil || e.funcs[leave] == nil {
			return false, "enter/leave function not found"
		}
		var bad []string
		pairs := 0
		for key, fn := range e.funcs {
			pk := fnPackage(fn)
			if pk == nil || pkgKey(pk) != parts[1] || fn.Blocks == nil {
				continue
			}
			enters, defLeaves := 0, 0
			okOrder := false
			var leaveRecv ssa.Value
			for _, b := range fn.Blocks {
				for _, ins := range b.Instrs {
					switch x := ins.(type) {
					case *ssa.Defer:
						if f := x.Call.StaticCallee(); f != nil && normName(f.String()) == leave {
							defLeaves++
							if b.Index == 0 && enters == 0 && len(x.Call.Args) > 0 {
								leaveRecv = x.Call.Args[0]
							} else {
								bad = append(bad, key+": deferred "+leave+" not in the entry block before "+enter)
							}
						}
					case ssa.CallInstruction:
						f := x.Common().StaticCallee()
						if f == nil {
							continue
						}
						switch normName(f.String()) {
						case enter:
							enters++
							if b.Index == 0 && leaveRecv != nil && len(x.Common().Args) > 0 && x.Common().Args[0] == leaveRecv {
								okOrder = true
							}
						case leave:
							bad = append(bad, key+": calls "+leave+" other than by the entry defer")
						}
					}
					// the functions taken as values would escape the pairing
					for _, op := range ins.Operands(nil) {
						if f, ok := (*op).(*ssa.Function); ok {
							n := normName(f.String())
							if ci, isCall := ins.(ssa.CallInstruction); isCall && ci.Common().Value == f {
								continue
							}
							if n == enter || n == leave {
								bad = append(bad, key+": takes "+n+" as a value")
							}
						}
					}
				}
			}
			if enters == 0 && defLeaves == 0 {
				continue
			}
			if enters != 1 || defLeaves != 1 || !okOrder {
				bad = append(bad, fmt.Sprintf("%s: %d calls of %s, %d deferred %s (want: defer leave, then one enter, both in the entry block on the same receiver)", key, enters, enter, defLeaves, leave))
				continue
			}
			pairs++
		}
		if len(bad) > 0 {
			sort.Strings(bad)
			return false, strings.Join(dedupe(bad), "; ")
		}
		if pairs == 0 {
			return false, "no use of the pair found (vacuous)"
		}
		return true, fmt.Sprintf("%d functions use the pair, each once at entry", pairs)
	case "global-writes-confined":
		// global-writes-confined|<pkg name>|<global>|<allowed function keys,...>: the package-level variable is assigned, and
		// the map or slice it holds is updated, only in the allowed functions (and in the package initialiser)
		if len(parts) != 4 {
			return false, "bad spec"
		}
		allowed := map[string]bool{}
		for _, c := range strings.Split(parts[3], ",") {
			if c = strings.TrimSpace(c); c != "" {
				allowed[c] = true
			}
		}
		isG := func(v ssa.Value) bool {
			for {
				switch x := v.(type) {
				case *ssa.UnOp:
					if x.Op == token.MUL {
						v = x.X
						continue
					}
				case *ssa.Global:
					return x.Name() == parts[2]
				}
				return false
			}
		}
		var bad []string
		n := 0
		found := false
		for key, fn := range e.funcs {
			pk := fnPackage(fn)
			if pk == nil || pkgKey(pk) != parts[1] || fn.Blocks == nil {
				continue
			}
			for _, b := range fn.Blocks {
				for _, ins := range b.Instrs {
					w := false
					switch x := ins.(type) {
					case *ssa.Store:
						w = isG(x.Addr)
					case *ssa.MapUpdate:
						w = isG(x.Map)
					case ssa.CallInstruction:
						if bi, isB := x.Common().Value.(*ssa.Builtin); isB && bi.Name() == "delete" && len(x.Common().Args) > 0 {
							w = isG(x.Common().Args[0])
						}
					case *ssa.UnOp:
						if isG(x) {
							found = true
						}
					}
					if !w {
						continue
					}
					found = true
					n++
					if !allowed[key] && fn.Name() != "init" {
						bad = append(bad, key)
					}
				}
			}
		}
		if len(bad) > 0 {
			sort.Strings(bad)
			return false, parts[2] + " written by " + strings.Join(dedupe(bad), ", ")
		}
		if !found {
			return false, "no use of the global found (vacuous)"
		}
		return true, fmt.Sprintf("%d writes, all in set-up code", n)
	case "under-contract":
		for _, k := range strings.Split(parts[1], ",") {
			k = strings.TrimSpace(k)
			if e.funcs[k] == nil || e.cons.Funcs[k] == nil {
				return false, "no function/contract: " + k
			}
		}
		return true, ""
	}
	return false, "unknown structural check: " + spec
}

func fnPackage(fn *ssa.Function) *types.Package {
	for f := fn; f != nil; f = f.Parent() {
		if f.Pkg != nil {
			return f.Pkg.Pkg
		}
	}
	return nil
}

func dedupe(xs []string) []string {
	var out []string
	for i, x := range xs {
		if i == 0 || x != xs[i-1] {
			out = append(out, x)
		}
	}
	return out
}

// sharedWrites implements the structural check
//
//	shared-writes|<pkg name>|<Type,Type,...>|<allowed function keys,...>
//
// Objects of the listed struct types are shared by every goroutine that serves a request. Every write to one of their fields
// (store through a field address), and every update of or deletion from a map or slice held directly in such a field, made by
// any function of the package must occur in an allowed function (set-up code that runs before serving), or in a function that
// also acquires a sync.Mutex/RWMutex write lock held in a field of the same struct, or be a sync/atomic operation.
// It returns one line per offending (function, field) pair and the number of writes scanned.
func (e *Engine) sharedWrites(spec string) (offenders []string, scanned int, err string) {
	parts := strings.Split(spec, "|")
	if len(parts) != 4 {
		return nil, 0, "bad spec"
	}
	shared := map[string]bool{}
	for _, c := range strings.Split(parts[2], ",") {
		shared[strings.TrimSpace(c)] = true
	}
	allowed := map[string]bool{}
	for _, c := range strings.Split(parts[3], ",") {
		if c = strings.TrimSpace(c); c != "" {
			allowed[c] = true
		}
	}
	fieldOf := func(v ssa.Value) (string, bool) {
		// v is the address of, or a value loaded from, a field of a shared struct
		for {
			switch x := v.(type) {
			case *ssa.UnOp:
				if x.Op == token.MUL {
					v = x.X
					continue
				}
			case *ssa.FieldAddr:
				owner := deref(x.X.Type())
				if nt, ok := types.Unalias(owner).(*types.Named); ok && shared[nt.Obj().Name()] {
					st := owner.Underlying().(*types.Struct)
					return nt.Obj().Name() + "." + st.Field(x.Field).Name(), true
				}
			}
			return "", false
		}
	}
	seen := map[string]bool{}
	for key, fn := range e.funcs {
		pk := fnPackage(fn)
		if pk == nil || pkgKey(pk) != parts[1] || fn.Blocks == nil {
			continue
		}
		locks := false
		for _, b := range fn.Blocks {
			for _, ins := range b.Instrs {
				if ci, ok := ins.(ssa.CallInstruction); ok {
					if f := ci.Common().StaticCallee(); f != nil {
						n := normName(f.String())
						if n == "(*sync.Mutex).Lock" || n == "(*sync.RWMutex).Lock" {
							locks = true
						}
					}
				}
			}
		}
		for _, b := range fn.Blocks {
			for _, ins := range b.Instrs {
				var field string
				var ok bool
				switch x := ins.(type) {
				case *ssa.Store:
					if fa, isFA := x.Addr.(*ssa.FieldAddr); isFA {
						field, ok = fieldOf(fa)
					}
				case *ssa.MapUpdate:
					field, ok = fieldOf(x.Map)
				case ssa.CallInstruction:
					if bi, isB := x.Common().Value.(*ssa.Builtin); isB && bi.Name() == "delete" && len(x.Common().Args) > 0 {
						field, ok = fieldOf(x.Common().Args[0])
					}
				}
				if !ok {
					continue
				}
				scanned++
				// a constructor writes the fields of the object it has just allocated
				if st, isStore := ins.(*ssa.Store); isStore {
					if fa, isFA := st.Addr.(*ssa.FieldAddr); isFA {
						if _, isAlloc := fa.X.(*ssa.Alloc); isAlloc {
							continue
						}
					}
				}
				if allowed[key] || locks {
					continue
				}
				o := key + ": " + field
				if !seen[o] {
					seen[o] = true
					offenders = append(offenders, o)
				}
			}
		}
	}
	sort.Strings(offenders)
	return offenders, scanned, ""
}

// recursionGuarded: recursion-guarded|<pkg name>|<guard function keys>
// Every cycle of the package's call graph must pass through one of the guard functions (whose
// contracts bound the number of their active frames): with the guards removed the graph must be
// acyclic. Edges: static calls, closures created (MakeClosure) and, conservatively, dynamic calls to
// every address-taken function of the package with the same signature and interface invocations to
// every method of the package with that name. One obligation per unguarded strongly connected
// component, named by its (sorted) members, so that a recorded finding suppresses exactly that cycle.
func (e *Engine) recursionGuarded(spec string) (cycles []string, nfuncs int, err string) {
	parts := strings.Split(spec, "|")
	if len(parts) != 3 && len(parts) != 4 {
		return nil, 0, "bad spec"
	}
	// optional 4th part: groups (separated by ';') of functions whose mutual recursion is structural - over a
	// finite value (syntax tree, type, run-time value, scope chain) built by guarded code. A strongly
	// connected component is accepted iff all its members belong to one group; the groups are listed as
	// assumptions of the property. A cycle that leaves its group (say, through a new call path) is reported.
	var groups []map[string]bool
	if len(parts) == 4 {
		for _, g := range strings.Split(parts[3], ";") {
			m := map[string]bool{}
			for _, c := range strings.Split(g, ",") {
				if c = strings.TrimSpace(c); c != "" {
					m[c] = true
					if e.funcs[c] == nil {
						return nil, 0, "exempt function " + c + " not found"
					}
				}
			}
			if len(m) > 0 {
				groups = append(groups, m)
			}
		}
	}
	guards := map[string]bool{}
	for _, c := range strings.Split(parts[2], ",") {
		if c = strings.TrimSpace(c); c != "" {
			guards[c] = true
			if e.funcs[c] == nil {
				return nil, 0, "guard function " + c + " not found"
			}
		}
	}
	inPkg := map[*ssa.Function]string{}
	for key, fn := range e.funcs {
		pk := fnPackage(fn)
		if pk == nil || pkgKey(pk) != parts[1] || fn.Blocks == nil {
			continue
		}
		inPkg[fn] = key
	}
	// address-taken functions and methods by name (targets of dynamic calls)
	addrTaken := map[*ssa.Function]bool{}
	for fn := range inPkg {
		for _, b := range fn.Blocks {
			for _, ins := range b.Instrs {
				for _, op := range ins.Operands(nil) {
					if f, ok := (*op).(*ssa.Function); ok {
						if ci, isCall := ins.(ssa.CallInstruction); isCall && ci.Common().Value == f {
							continue
						}
						addrTaken[f] = true
					}
				}
				if mc, ok := ins.(*ssa.MakeClosure); ok {
					if f, ok := mc.Fn.(*ssa.Function); ok {
						addrTaken[f] = true
					}
				}
			}
		}
	}
	adj := map[string][]string{}
	for fn, key := range inPkg {
		if guards[key] {
			continue
		}
		seen := map[string]bool{}
		// a direct self call is bounded where the function carries a verified recursion variant (recdecreases)
		selfBounded := false
		if con := e.cons.Funcs[key]; con != nil && con.RecDecreases != nil {
			selfBounded = true
		}
		add := func(t *ssa.Function) {
			if t == fn && selfBounded {
				return
			}
			if k, ok := inPkg[t]; ok && !guards[k] && !seen[k] {
				seen[k] = true
				adj[key] = append(adj[key], k)
			}
		}
		for _, b := range fn.Blocks {
			for _, ins := range b.Instrs {
				if mc, ok := ins.(*ssa.MakeClosure); ok {
					if f, ok := mc.Fn.(*ssa.Function); ok && !onlyGo(mc) {
						add(f)
					}
				}
				ci, ok := ins.(ssa.CallInstruction)
				if !ok {
					continue
				}
				if _, isGo := ins.(*ssa.Go); isGo {
					// a new goroutine has a stack of its own: not a frame on this one
					continue
				}
				c := ci.Common()
				switch {
				case c.IsInvoke():
					for t := range inPkg {
						if t.Signature.Recv() != nil && t.Name() == c.Method.Name() {
							add(t)
						}
					}
				case c.StaticCallee() != nil:
					add(c.StaticCallee())
				default:
					if _, isB := c.Value.(*ssa.Builtin); isB {
						continue
					}
					sig := c.Signature()
					for t := range addrTaken {
						if _, ok := inPkg[t]; ok && types.Identical(stripRecv(t.Signature), sig) {
							add(t)
						}
					}
				}
			}
		}
		sort.Strings(adj[key])
	}
	// Tarjan SCC
	index := map[string]int{}
	low := map[string]int{}
	on := map[string]bool{}
	var stack []string
	n := 0
	var sccs [][]string
	var keys []string
	for _, k := range inPkg {
		if !guards[k] {
			keys = append(keys, k)
		}
	}
	sort.Strings(keys)
	var strong func(v string)
	strong = func(v string) {
		index[v] = n
		low[v] = n
		n++
		stack = append(stack, v)
		on[v] = true
		for _, w := range adj[v] {
			if _, ok := index[w]; !ok {
				strong(w)
				if low[w] < low[v] {
					low[v] = low[w]
				}
			} else if on[w] && index[w] < low[v] {
				low[v] = index[w]
			}
		}
		if low[v] == index[v] {
			var comp []string
			for {
				w := stack[len(stack)-1]
				stack = stack[:len(stack)-1]
				on[w] = false
				comp = append(comp, w)
				if w == v {
					break
				}
			}
			self := false
			for _, w := range adj[v] {
				if w == v {
					self = true
				}
			}
			if len(comp) > 1 || self {
				sort.Strings(comp)
				sccs = append(sccs, comp)
			}
		}
	}
	for _, k := range keys {
		if _, ok := index[k]; !ok {
			strong(k)
		}
	}
	for _, c := range sccs {
		accepted := false
		for _, g := range groups {
			all := true
			for _, m := range c {
				if !g[m] {
					all = false
					break
				}
			}
			if all {
				accepted = true
				break
			}
		}
		if !accepted {
			cycles = append(cycles, strings.Join(c, ","))
		}
	}
	sort.Strings(cycles)
	return cycles, len(keys), ""
}

func stripRecv(sig *types.Signature) *types.Signature {
	if sig.Recv() == nil {
		return sig
	}
	return types.NewSignatureType(nil, nil, nil, sig.Params(), sig.Results(), sig.Variadic())
}

// onlyGo: the closure value is used by nothing but go statements.
func onlyGo(mc *ssa.MakeClosure) bool {
	refs := mc.Referrers()
	if refs == nil || len(*refs) == 0 {
		return false
	}
	for _, r := range *refs {
		if _, ok := r.(*ssa.Go); !ok {
			if _, isDbg := r.(*ssa.DebugRef); isDbg {
				continue
			}
			return false
		}
	}
	return true
}
