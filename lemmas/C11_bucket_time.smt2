; C11 history lemma, part 2 (time passing between requests) and conclusion.
; Q grows by at most r*dt while no request is processed: min(B, x + d) <= min(B, x) + d for d >= 0.
; With part 1: K = admitted + Q - r*t never increases, so for t1 <= t2:
;   admitted(t2) - admitted(t1) <= Q(t1) - Q(t2) + r*(t2 - t1) <= B + r*(t2 - t1)   (0 <= Q <= B).
(declare-const B Real) (declare-const x Real) (declare-const d Real)
(declare-const A1 Real) (declare-const A2 Real) (declare-const Q1 Real) (declare-const Q2 Real) (declare-const rT Real)
(define-fun rmin ((a Real) (b Real)) Real (ite (<= a b) a b))
(assert (>= d 0.0))
(assert (>= B 1.0))
(assert (and (<= 0.0 Q1) (<= Q1 B) (<= 0.0 Q2) (<= Q2 B) (>= rT 0.0)))
(assert (<= (+ A2 Q2) (+ A1 Q1 rT)))            ; K non-increasing, summed over the interval
(assert (not (and
   (<= (rmin B (+ x d)) (+ (rmin B x) d))
   (<= (- A2 A1) (+ B rT)))))
(check-sat)
