; C11 history lemma, part 1 (request step). Ghost lemma over the step relation that the contract of
; server.RateLimitMiddleware$2$1 (atunlock clauses: rlMid, lastRefill update, admitted <=> mid >= 1)
; proves of the real closure. Assumption (stated in evidence): the float expression
; int(elapsed.Minutes() * float64(rpm)) is floor(rho) for the real rho = r * (t - lr) >= 0.
; Potential Q(tok, rho) = min(B, tok + rho). Claim: one request never raises Q, and lowers it by 1 when admitted;
; tokens stay within [0, B-1] at the end of every critical section.
(declare-const B Int) (declare-const tok Int) (declare-const add Int)
(declare-const rho Real)
(declare-const existed Bool)
(define-fun rmin ((a Real) (b Real)) Real (ite (<= a b) a b))
(define-fun imin ((a Int) (b Int)) Int (ite (<= a b) a b))
(assert (>= B 1))
; state invariant at lock time for an existing entry; a new entry starts full with rho = 0
(assert (=> existed (and (<= 0 tok) (<= tok (- B 1)) (>= rho 0.0))))
(assert (=> (not existed) (and (= rho 0.0))))
(assert (and (<= (to_real add) rho) (< rho (+ (to_real add) 1.0))))       ; add = floor(rho)
(define-fun t0 () Int (ite existed tok B))
(define-fun mid () Int (ite (> add 0) (imin B (+ t0 add)) t0))          ; == rlMid(exists, tok, B, add)
(define-fun adm () Bool (>= mid 1))
(define-fun tok2 () Int (ite adm (- mid 1) mid))
(define-fun rho2 () Real (ite (> add 0) 0.0 rho))                        ; lastRefill' = now iff add > 0
(define-fun Qbefore () Real (rmin (to_real B) (+ (to_real t0) rho)))
(define-fun Qafter () Real (rmin (to_real B) (+ (to_real tok2) rho2)))
(assert (not (and
   (<= 0 tok2) (<= tok2 (- B 1))
   (<= Qafter (- Qbefore (ite adm 1.0 0.0)))
   (>= Qafter 0.0))))
(check-sat)
